"""C14 The call-state cache never changes a request's outcome.

proof        : coq/prop/P_C14.v over model/M_CallCache.v: N workers with private LRU/expiring caches, one shared key
               (ideal AEAD = membership in the minted lists, per identity), fresh call ids, a logical clock in 1/4 s,
               histories of init / continuation / clock-advance / cache-clear requests with ARBITRARY presented tokens.
               For all histories, capacities and TTLs: cache entries are sound (cache_sound), a hit returns the call
               minted for the presenting identity, size <= capacity, two differently populated caches can only differ
               as "served vs. a call-token rejection of the cold path", and on the complement of that class (the
               presented call token is one a cache-less worker accepts) outcomes with caches = outcomes without.
refuted      : coq/refuted/R_C14.v: the unrestricted statement fails for the unchanged code in three ways -- a hit
               never looks at the presented call token (absent / garbage / foreign / other stream), an entry re-created
               on the miss path gets a full new lifetime and outlives the call token's TTL (honest client!), and the
               declared call-state type of the method is only checked on the miss path.  Each witness is replayed on
               the real app below (ctx.violation keys: see KEYS).
regenerated  : translate/t_c14_cache.py -> gen/G_CallCache.v: the cache key expression and the anonymous identity of
               _CallStateCache._identity, the guards of get/put (expiry comparison, eviction loop), the TTL guards of
               the two open functions, the order cursor-open -> get -> (miss: resolve + put) of
               _unpack_and_recover_state, the birth the miss path hands to put (gen_dated_miss: `now` in the unchanged
               source, the call token's created_at under fixes/C14-miss-path-entry-expires-with-call-token.diff --
               the model takes the flag from the source), the check order of _resolve_call_from_token, every use of
               the cache in _app_stream.py, and the cache constructor arguments of _HttpRpcApp.
               tie/T_CallCache.v proves generated = modelled and states what the flag means for the TTL half
               (C14_source_ttl_verdict: theorem for dated sources, refutation for the unchanged one).
correspondence: adaptive random + directed histories on 2-3 REAL Falcon apps (make_wsgi_app) sharing a key, capacities
               0..3, token TTL 0 / 10 s, one logical clock substituted for `time` in _state_token and _app_stream
               (the hook the property names), four stream methods (one without call state, one whose call state is a
               falsy-but-not-None object), five identities (incl. the pair whose cache
               identities collide).  Every response is decoded (tokens are opened: nonces differ) and compared with
               M_CallCache.run_case; the final cache sizes are compared too.
oracle       : independent of the model: every continuation request is also sent, at the same logical instant, to a
               reference worker with call_state_cache_entries=0; the two outcomes must be equal (status, message,
               data, opened cursor).  Cache size <= capacity after every request.  A served output must carry the call
               label of the stream the (authenticated) cursor belongs to, minted for the presenting identity.

Readings adopted where the statement leaves room
  * "same outcome": HTTP status, error message, data values, and the re-minted cursor compared after opening
    (call id, created-at second, state); request ids / server ids / nonces are not part of it.
  * "a worker with an empty cache": a worker of the same configuration (key, TTL) holding no entry at that instant;
    realised as a capacity-0 app (the supported way to disable the cache) -- proved equivalent to "the same worker
    with its cache emptied just before the request" (C14_step_transparent_partial is stated for both).
  * identities are compared as the token layer sees them (AAD identity tail); injectivity of that tail is C12.
  * one clock reading per request (the logical clock does not move inside a request).
"""
from __future__ import annotations

import base64
import struct
from typing import Any

META = {
    "id": "C14",
    "technique": "Coq proof over an executable state-machine model (ideal AEAD, fresh ids, logical clock) + refutation witnesses "
    "+ regenerated cache guards/key/order tie + differential correspondence on multi-worker histories + cold-reference oracle",
    "level_text": "Coq theorems for ALL histories / capacities / TTLs / presented tokens: cache entries sound, hit => call "
    "minted for the presenting identity, size <= capacity, any divergence between differently populated caches is "
    "'served vs call-token rejection', transparency on the complement of that class.  The unrestricted statement is "
    "refuted (three witnesses, each replayed on the real app).  Cache guards, key expression, resolution order and "
    "constructor arguments are regenerated from the source on every run; the step function is tied by running real "
    "apps against the model on generated histories.",
    "level_note": "partial: transparency is proved only for continuations whose call token a cache-less worker accepts; the "
    "excluded class is a genuine (documented) divergence.  Trusted: Coq kernel, translator, harness; ideal AEAD and "
    "call-id freshness are modelling assumptions (C12 covers the token layer); the turn itself is an uninterpreted "
    "function of (method, resolved call, cursor state, body) -- that the cached objects behave like the deserialized "
    "ones is checked by correspondence only.",
    "design_ref": "§5 C14",
}

T0 = 1_700_000_000
KEY = bytes(range(7, 39))
MSG = {
    "Malformed state token": 1,
    "State token signature verification failed": 2,
    "State token expired": 4,
    "Malformed call token": 5,
    "Call token signature verification failed": 6,
    "Call token expired": 7,
    "Missing call token in exchange request": 8,
    "State token does not belong to the supplied call token": 9,
    "Missing state token in exchange request": 10,
}
TYPE_MSG = "which this method does not"
IDENTS: list[Any] = [None, ("", "anonymous"), ("jwt", "alice"), ("jwt", "bob"), (None, "alice")]
KEYS = {
    "novalid": "cache-hit-serves-without-a-valid-call-token",
    "ttl": "cache-entry-recreated-on-miss-outlives-call-token-ttl",
    "type": "cache-hit-skips-declared-call-state-type-check",
}
HDR = "From Coq Require Import List NArith Bool.\nFrom VGI Require Import M_CallCache Corr.\nImport ListNotations.\nOpen Scope N_scope."
# the miss-path flag of the model comes from the regenerated source; if the translation is broken the correspondence still
# runs against the model of the unchanged source (flag false), so that a failing input can be found
HDR_GEN = HDR + "\nFrom VGI Require Import G_CallCache.\nDefinition src_dated_miss : bool := gen_dated_miss."
HDR_NOGEN = HDR + "\nDefinition src_dated_miss : bool := false."


def translate(ctx: Any) -> bool:
    from translate import t_c14_cache

    return bool(ctx.gen("G_CallCache", lambda: t_c14_cache.generate(ctx.repo)))


# ---------------------------------------------------------------------------------------------------------------
class World:
    """2-3 real workers + one cache-less reference worker, one key, one logical clock; book-keeping of minted tokens."""

    def __init__(self, ttl: int, caps: list[int], t0q: int) -> None:
        import falcon.testing

        from harness import c14_service as S

        self.S = S
        self.clk = S.install_clock()
        self.ttl = ttl
        self.caps = caps
        self.nowq = t0q
        self.t0q = t0q
        self.clients: list[Any] = []
        self.cachesobj: list[Any] = []
        for c in caps:
            app, srv, cache = S.make_app(KEY, ttl, c)
            self.clients.append(falcon.testing.TestClient(app))
            self.cachesobj.append(cache)
            self.srv = srv
        app, _, _ = S.make_app(KEY, ttl, 0)
        self.ref = falcon.testing.TestClient(app)
        self.cids: dict[bytes, int] = {}
        self.calls: list[dict[str, Any]] = []  # minted call tokens: bytes + record
        self.curs: list[dict[str, Any]] = []  # minted cursor tokens
        self.hist: list[str] = []  # Coq terms
        self.plain: list[Any] = []  # readable history (replays)
        self.expected: list[list[int]] = []

    # -- identities ---------------------------------------------------------
    def aad_tail(self, ident: Any) -> bytes:
        from vgi_rpc.http.server import _state_token as T

        full = T._compute_aad(self.S.auth_of(ident))
        pre = b"vgi_rpc.state.v4\x00"
        assert full.startswith(pre)
        return full[len(pre):]

    @staticmethod
    def c_auth(ident: Any) -> str:
        from vlib.coqterm import cbytes

        if ident is None:
            return "Anon"
        return f"(Auth {cbytes((ident[0] or '').encode())} {cbytes((ident[1] or '').encode())})"

    # -- opening real tokens (they differ by nonce: compare after opening) -------
    def open_cur(self, tok: bytes, ident: Any) -> dict[str, Any]:
        from vgi_rpc import crypto
        from vgi_rpc.http.server import _state_token as T
        from vgi_rpc.utils import IpcValidation

        raw = base64.b64decode(tok, validate=True)
        pl = T._unpack_plaintext(crypto.open_bytes(raw, KEY, aad=T._compute_aad(self.S.auth_of(ident)), version=raw[0]))
        created = struct.unpack_from("<Q", pl, 0)[0]
        cid = pl[8:24]
        sb, cid2 = T._open_cursor_token(tok, KEY, T._compute_aad(self.S.auth_of(ident)), 0)
        assert cid2 == cid
        st = T._deserialize_state_bytes(self.S.ExState, sb, IpcValidation.FULL)
        return {"tok": tok, "cid": self.cids.get(cid, 999999), "aad": self.aad_tail(ident), "created": created, "state": st.n, "ident": ident}

    def open_call(self, tok: bytes, ident: Any) -> dict[str, Any]:
        from vgi_rpc import crypto
        from vgi_rpc.http.server import _state_token as T
        from vgi_rpc.utils import IpcValidation

        raw = base64.b64decode(tok, validate=True)
        aad = T._compute_call_aad(self.S.auth_of(ident))
        pl = T._unpack_plaintext(crypto.open_bytes(raw, KEY, aad=aad, version=raw[0]))
        created = struct.unpack_from("<Q", pl, 0)[0]
        csb, cst, _, _, cid, _sid = T._open_call_token(tok, KEY, aad, 0)
        if cid not in self.cids:
            self.cids[cid] = len(self.cids)
        ty, payload = 0, 0
        if csb:
            ty = self.S.CALL_TYPES[cst]
            payload = getattr(self.S, cst).deserialize_from_bytes(csb, IpcValidation.FULL).label
        return {"tok": tok, "cid": self.cids[cid], "aad": self.aad_tail(ident), "created": created, "ty": ty, "payload": payload, "ident": ident}

    @staticmethod
    def c_ct(r: dict[str, Any]) -> str:
        from vlib.coqterm import cN, cbytes

        return f"(CT {cN(r['cid'])} {cbytes(r['aad'])} {cN(r['created'])} {cN(r['ty'])} {cN(r['payload'])})"

    @staticmethod
    def c_cu(r: dict[str, Any]) -> str:
        from vlib.coqterm import cN, cbytes

        return f"(CU {cN(r['cid'])} {cbytes(r['aad'])} {cN(r['created'])} {cN(r['state'])})"

    @staticmethod
    def enc_ct(r: dict[str, Any]) -> list[int]:
        return [r["cid"], r["created"], r["ty"], r["payload"], *r["aad"]]

    @staticmethod
    def enc_cu(r: dict[str, Any]) -> list[int]:
        return [r["cid"], r["created"], r["state"], *r["aad"]]

    # -- requests ----------------------------------------------------------------
    def _post(self, client: Any, path: str, body: bytes, ident: Any) -> Any:
        self.clk.now = self.nowq / 4.0
        return client.simulate_post(path, body=body, headers={"Content-Type": self.S.ARROW_CT, **self.S.ident_header(ident)})

    def tick(self, dtq: int) -> None:
        from vlib.coqterm import cN

        self.nowq += dtq
        self.hist.append(f"RTick {cN(dtq)}")
        self.plain.append(["tick", dtq])
        self.expected.append([0])

    def clear(self, w: int) -> None:
        self.cachesobj[w].clear()
        self.hist.append(f"RClear {w}%nat")
        self.plain.append(["clear", w])
        self.expected.append([0])

    def init(self, w: int, ident: Any, m: int, label: int, start: int) -> list[int]:
        from harness.rawrpc import error_of, read_streams, request_bytes
        from vgi_rpc.metadata import CALL_STATE_KEY, STATE_KEY
        from vlib.coqterm import cN

        name = self.S.METHODS[m]
        body = request_bytes(name, self.srv._methods[name].params_schema, {"a": start, "label": label})
        r = self._post(self.clients[w], f"/{name}/init", body, ident)
        md: dict[bytes, bytes] = {}
        st = read_streams(r.content)
        for s in st:
            for _, mm, _b in s:
                md.update(mm)
        self.hist.append(f"RInit {w}%nat {self.c_auth(ident)} {cN(m)} {cN(label * 1000 + start)}")
        self.plain.append(["init", w, repr(ident), name, label, start])
        if r.status_code == 200 and STATE_KEY in md and CALL_STATE_KEY in md:
            ct = self.open_call(md[CALL_STATE_KEY], ident)
            cu = self.open_cur(md[STATE_KEY], ident)
            ct["method"] = m
            self.calls.append(ct)
            self.curs.append(cu)
            e = self.enc_ct(ct)
            out = [1, len(e), *e, *self.enc_cu(cu)]
        else:
            err = error_of(st[0]) if st else None
            out = [2] if (err is not None and "init refused" in err[1]) else [99, r.status_code]
        self.expected.append(out)
        return out

    def _cont_on(self, client: Any, m: int, cur: Any, call: Any, body_x: int, ident: Any) -> tuple[list[int], dict[str, Any]]:
        """Send one continuation; returns (encoded outcome, details).  cur/call: None | bytes."""
        from harness.rawrpc import error_of, read_streams, request_bytes
        from vgi_rpc.metadata import CALL_STATE_KEY, CANCEL_KEY, STATE_KEY

        md: dict[bytes, bytes] = {}
        if cur is not None:
            md[STATE_KEY] = cur
        if call is not None:
            md[CALL_STATE_KEY] = call
        if body_x == 0:
            md[CANCEL_KEY] = b"1"
        name = self.S.METHODS[m]
        body = request_bytes(None, self.S.IN_SCHEMA, {"x": body_x}, md, request_version=None)
        r = self._post(client, f"/{name}/exchange", body, ident)
        info: dict[str, Any] = {"status": r.status_code}
        try:
            st = read_streams(r.content)
        except Exception as e:  # noqa: BLE001
            return [98, r.status_code], {**info, "unparseable": type(e).__name__}
        err = error_of(st[0]) if st else None
        if err is not None:
            msg = err[1].split(": ", 1)[-1]
            info["message"] = msg
            code = 11 if TYPE_MSG in msg else MSG.get(msg, 97)
            if r.status_code != 400:
                return [96, r.status_code, code], info
            return [5, code], info
        if r.status_code != 200:
            return [95, r.status_code], info
        new_cur = None
        data = None
        for s in st:
            for rows, mm, b in s:
                if STATE_KEY in mm:
                    new_cur = mm[STATE_KEY]
                if rows > 0 and b is not None:
                    data = b.to_pydict()
        if data is None:
            out_n = 0
        else:
            out_n = (data["y"][0] * 1000 + data["x"][0]) * 1000 + data["lab"][0]
            info["data"] = data
        if new_cur is None:
            return [3, out_n], info
        rec = self.open_cur(new_cur, ident)
        info["new_cur"] = rec
        return [4, out_n, *self.enc_cu(rec)], info

    def cont(self, w: int, ident: Any, m: int, cur: tuple[str, Any], call: tuple[str, Any], body_x: int) -> tuple[list[int], list[int], dict[str, Any], dict[str, Any]]:
        """cur / call: ("none",None) | ("garbage",None) | ("forged",bytes) | ("tok",record).  Runs worker w AND the reference."""
        from vlib.coqterm import cN

        def real(p: tuple[str, Any]) -> Any:
            k, v = p
            if k == "none":
                return None
            if k == "garbage":
                return b"!!not*base64!!"
            if k == "forged":
                return v
            return v["tok"]

        def term(p: tuple[str, Any], rec: Any) -> str:
            k, v = p
            return {"none": "PNone", "garbage": "PGarbage", "forged": "PForged"}.get(k) or f"(PTok {rec(v)})"

        ref_out, ref_info = self._cont_on(self.ref, m, real(cur), real(call), body_x, ident)
        out, info = self._cont_on(self.clients[w], m, real(cur), real(call), body_x, ident)
        if "new_cur" in info:
            self.curs.append(info["new_cur"])
        self.hist.append(f"RCont {w}%nat {self.c_auth(ident)} {cN(m)} {term(cur, self.c_cu)} {term(call, self.c_ct)} {cN(body_x)}")
        self.plain.append(["cont", w, repr(ident), self.S.METHODS[m], cur[0] if cur[0] != "tok" else self.enc_cu(cur[1]), call[0] if call[0] != "tok" else self.enc_ct(call[1]), body_x])
        self.expected.append(out)
        return out, ref_out, info, ref_info

    def sizes(self) -> list[int]:
        return [len(c._entries) for c in self.cachesobj]

    def coq_case(self) -> tuple[str, str]:
        from vlib.coqterm import cN, clist

        inp = f"(src_dated_miss, {cN(self.ttl)}, {clist(cN(c) for c in self.caps)}, {cN(self.t0q)}, {clist(self.hist)})"
        exp = self.expected + [self.sizes()]
        out = clist(clist(cN(x) for x in row) for row in exp)
        return inp, out


def _flip(tok: bytes) -> bytes:
    """Another valid base64 text of the same length that the key holders never sealed."""
    b = bytearray(tok)
    i = len(b) // 2
    b[i] = ord("A") if b[i] != ord("A") else ord("B")
    return bytes(b)


class Driver:
    """Runs histories on a World, applies the oracle of the statement to every continuation."""

    def __init__(self, ctx: Any) -> None:
        self.ctx = ctx
        self.arms: dict[str, int] = {}

    def arm(self, a: str) -> None:
        self.arms[a] = self.arms.get(a, 0) + 1

    def check_cont(self, W: World, w: int, ident: Any, m: int, cur: tuple[str, Any], call: tuple[str, Any], x: int) -> list[int]:
        ctx = self.ctx
        before = W.sizes()[w]
        out, ref, info, ref_info = W.cont(w, ident, m, cur, call, x)
        ctx.count("impl_runs", 2)
        replay = {"ttl": W.ttl, "caps": W.caps, "t0_quarter_seconds": W.t0q, "history": list(W.plain), "worker": out, "cache_less_reference": ref,
                  "worker_message": info.get("message"), "reference_message": ref_info.get("message")}
        self.arm(f"cont:{out[0]}:{out[1] if out[0] == 5 else ''}|ref:{ref[0]}:{ref[1] if ref[0] == 5 else ''}")
        if out != ref:
            served = out[0] in (3, 4)
            # "expired" on the reference is the TTL class only when the presented call token is the genuine one of the
            # cursor's stream; an expired token of another stream belongs to the first class
            own = cur[0] == "tok" and call[0] == "tok" and call[1]["cid"] == cur[1]["cid"]
            if served and ref[0] == 5 and (ref[1] in (5, 6, 8, 9) or (ref[1] == 7 and not own)):
                ctx.violation(KEYS["novalid"], "a worker holding a cache entry serves a continuation whose call token is absent, malformed, "
                              "not sealed for this caller or of another stream; a worker without the entry answers 400", replay)
            elif served and ref[0] == 5 and ref[1] == 7:
                ctx.violation(KEYS["ttl"], "an entry re-created on the cache-miss path lives a full TTL from that moment: the worker keeps "
                              "serving a stream whose call token is older than token_ttl, a worker without the entry answers 400 Call token expired", replay)
            elif served and ref[0] == 5 and ref[1] == 11:
                ctx.violation(KEYS["type"], "a cache hit serves a stream at a method that does not declare its call-state type; "
                              "a worker without the entry answers 400", replay)
            elif served and ref[0] in (3, 4):
                ctx.violation("hit-and-miss-bind-different-call-state", "the same valid continuation is served by both, but the worker holding a cache "
                              "entry and the cache-less worker hand the method a different call state / produce different output "
                              "(what the call token carries is not what /init put into the cache)", replay)
            else:
                ctx.violation("warm-cold-outcome-differs-" + "-".join(str(v) for v in (out[:1] + ref[:2])),
                              "worker with a cache and cache-less reference answer differently", replay)
        # a served output carries the call of the stream the cursor belongs to, and that call was minted for the presenter
        if out[0] == 4 and cur[0] == "tok":
            rec = cur[1]
            owner = [c for c in W.calls if c["cid"] == rec["cid"]]
            lab = out[1] % 1000
            if not owner or owner[0]["aad"] != W.aad_tail(ident) or lab != (owner[0]["payload"] if owner[0]["ty"] else 0):
                ctx.violation("served-call-state-of-another-stream-or-identity", "the served turn used a call state that is not the one minted for this caller's stream", replay)
        for i, (n, c) in enumerate(zip(W.sizes(), W.caps)):
            if n > c:
                ctx.violation("cache-exceeds-capacity", f"worker {i} holds {n} entries, capacity {c}", replay)
        del before
        return out

    # ---- adaptive random history ------------------------------------------------------------------------------
    def random_history(self, W: World, n_ops: int) -> None:
        rng = self.ctx.rng
        nw = len(W.caps)
        ticks = [1, 3, 4, 7, 16, 36, 39, 40, 41, 44, 80] if W.ttl else [4, 400, 14396, 14399, 14400, 14404]
        for _ in range(n_ops):
            r = rng.random()
            if not W.calls or r < 0.22:
                start = 999 if rng.random() < 0.06 else rng.randrange(0, 5)
                W.init(rng.randrange(nw), rng.choice(IDENTS), rng.randrange(4), rng.randrange(1, 9), start)
                self.ctx.count("impl_runs")
                self.arm("init")
            elif r < 0.34:
                W.tick(rng.choice(ticks))
                self.arm("tick")
            elif r < 0.37:
                W.clear(rng.randrange(nw))
                self.arm("clear")
            else:
                # pick a stream, usually its latest cursor and its own call token, presented by its owner
                ct = rng.choice(W.calls[-6:])
                mine = [c for c in W.curs if c["cid"] == ct["cid"]]
                cu = mine[-1] if rng.random() < 0.8 else rng.choice(mine)
                ident = ct["ident"]
                m = ct["method"]
                cur: tuple[str, Any] = ("tok", cu)
                call: tuple[str, Any] = ("tok", ct)
                q = rng.random()
                if q < 0.06:
                    cur = rng.choice([("none", None), ("garbage", None), ("forged", _flip(cu["tok"])), ("forged", ct["tok"])])
                elif q < 0.10:
                    ident = rng.choice(IDENTS)
                elif q < 0.14:
                    cur = ("tok", rng.choice(W.curs))
                q = rng.random()
                if q < 0.07:
                    call = ("none", None)
                elif q < 0.11:
                    call = rng.choice([("garbage", None), ("forged", _flip(ct["tok"])), ("forged", cu["tok"])])
                elif q < 0.17:
                    call = ("tok", rng.choice(W.calls))
                if rng.random() < 0.10:
                    m = rng.randrange(4)
                x = 0 if rng.random() < 0.04 else rng.randrange(1, 9)
                self.check_cont(W, rng.randrange(nw), ident, m, cur, call, x)

    # ---- directed scenarios: one per arm of the model's step function / per refutation witness -------------------
    def directed(self, ttl: int, caps: list[int], t0q: int, which: str) -> World:
        W = World(ttl, caps, t0q)
        A, B = ("jwt", "alice"), ("jwt", "bob")
        if which == "no-call-token":            # R_C14 witness 1
            W.init(0, A, 0, 7, 3)
            ct, cu = W.calls[0], W.curs[0]
            self.check_cont(W, 0, A, 0, ("tok", cu), ("none", None), 5)
            self.check_cont(W, 0, A, 0, ("tok", W.curs[-1]), ("garbage", None), 5)
            self.check_cont(W, 0, A, 0, ("tok", W.curs[-1]), ("forged", _flip(ct["tok"])), 5)
            self.check_cont(W, 1, A, 0, ("tok", W.curs[-1]), ("none", None), 5)      # the other worker: miss -> 400
            W.init(0, A, 0, 8, 0)                                                    # a second stream of the same caller
            self.check_cont(W, 0, A, 0, ("tok", cu), ("tok", W.calls[1]), 5)          # call token of the other stream
            W.init(0, B, 0, 9, 0)
            self.check_cont(W, 0, A, 0, ("tok", cu), ("tok", W.calls[2]), 5)          # call token of another caller
            # the same presentations on the worker that holds no entry: every arm of the miss path
            for call in (("garbage", None), ("forged", _flip(ct["tok"])), ("forged", cu["tok"]), ("tok", W.calls[1]), ("tok", W.calls[2]), ("tok", ct)):
                self.check_cont(W, 1, A, 0, ("tok", cu), call, 5)
            for cur in (("none", None), ("garbage", None), ("forged", _flip(cu["tok"])), ("forged", ct["tok"]), ("tok", W.curs[-1])):
                self.check_cont(W, 0, B, 0, cur, ("tok", ct), 5)
            self.check_cont(W, 0, A, 0, ("tok", cu), ("tok", ct), 0)                  # cancel
        elif which == "ttl-honest":               # R_C14 witness 2: honest client, stream older than the TTL
            W.init(0, A, 0, 7, 3)
            ct = W.calls[0]
            W.tick(4 * (ttl - 2))
            self.check_cont(W, 1, A, 0, ("tok", W.curs[-1]), ("tok", ct), 5)          # miss on worker 1: entry re-created
            W.tick(4 * 4)
            self.check_cont(W, 1, A, 0, ("tok", W.curs[-1]), ("tok", ct), 5)          # hit past the call token's TTL
            self.check_cont(W, 0, A, 0, ("tok", W.curs[-1]), ("tok", ct), 5)          # init worker: entry expired -> 400
            W.tick(4 * ttl)
            self.check_cont(W, 1, A, 0, ("tok", W.curs[-1]), ("tok", ct), 5)
        elif which == "type":                     # R_C14 witness 3
            W.init(0, A, 0, 7, 3)
            ct = W.calls[0]
            self.check_cont(W, 0, A, 1, ("tok", W.curs[-1]), ("tok", ct), 5)          # ex stream at /ey/exchange, warm
            self.check_cont(W, 1, A, 1, ("tok", W.curs[-1]), ("tok", ct), 5)          # cold worker
            self.check_cont(W, 0, A, 2, ("tok", W.curs[-1]), ("tok", ct), 5)          # /ez declares the type: both serve
            W.init(0, A, 1, 0, 1)
            self.check_cont(W, 1, A, 0, ("tok", W.curs[-1]), ("tok", W.calls[1]), 5)  # ey stream (no call state) at /ex
        elif which == "falsy-call-state":         # a call state that is falsy but not None, on the /init worker and on a cold one
            W.init(0, A, 3, 7, 3)
            ct = W.calls[0]
            self.check_cont(W, 0, A, 3, ("tok", W.curs[-1]), ("tok", ct), 5)          # hit: the live object of /init
            self.check_cont(W, 1, A, 3, ("tok", W.curs[-1]), ("tok", ct), 5)          # miss: what the call token carries
            self.check_cont(W, 1, A, 3, ("tok", W.curs[-1]), ("tok", ct), 6)          # hit on the entry rebuilt from the token
            W.clear(0)
            self.check_cont(W, 0, A, 3, ("tok", W.curs[-1]), ("tok", ct), 5)
            self.check_cont(W, 0, A, 0, ("tok", W.curs[-1]), ("tok", ct), 5)          # at a method that does not declare WCall
            W.init(1, None, 3, 2, 0)
            self.check_cont(W, 0, None, 3, ("tok", W.curs[-1]), ("tok", W.calls[1]), 4)
        elif which == "lru":
            for i in range(4):
                W.init(0, A, 0, i + 1, 0)
            for i in (0, 1, 2, 3, 1, 0, 3):
                mine = [c for c in W.curs if c["cid"] == W.calls[i]["cid"]]
                self.check_cont(W, 0, A, 0, ("tok", mine[-1]), ("tok", W.calls[i]), 2)
                self.check_cont(W, 0, A, 0, ("tok", mine[-1]), ("none", None), 2)
            W.clear(0)
            self.check_cont(W, 0, A, 0, ("tok", W.curs[-1]), ("none", None), 2)
        elif which == "collide":                  # cache identities of anonymous and ("", "anonymous") coincide
            W.init(0, None, 0, 4, 0)
            W.init(0, ("", "anonymous"), 0, 5, 0)
            c0, c1 = W.calls[0], W.calls[1]
            u0, u1 = W.curs[0], W.curs[1]
            self.check_cont(W, 0, None, 0, ("tok", u0), ("tok", c0), 3)
            self.check_cont(W, 0, ("", "anonymous"), 0, ("tok", u0), ("tok", c0), 3)   # other caller's tokens
            self.check_cont(W, 0, ("", "anonymous"), 0, ("tok", u1), ("tok", c0), 3)
            self.check_cont(W, 0, ("", "anonymous"), 0, ("tok", u1), ("none", None), 3)
            self.check_cont(W, 0, None, 0, ("tok", u1), ("none", None), 3)
            self.check_cont(W, 1, None, 0, ("tok", u0), ("tok", c1), 3)
        elif which == "expiry-edges":
            W.init(0, A, 0, 7, 3)
            ct = W.calls[0]
            W.tick(1)
            self.check_cont(W, 1, A, 0, ("tok", W.curs[-1]), ("tok", ct), 5)
            cu_old = W.curs[-1]
            for dt in (4 * ttl - 2, 1, 1, 1, 1, 1, 1):
                W.tick(dt)
                self.check_cont(W, 0, A, 0, ("tok", W.curs[-1]), ("tok", ct), 5)
                self.check_cont(W, 1, A, 0, ("tok", W.curs[-1]), ("none", None), 5)
                self.check_cont(W, 0, A, 0, ("tok", cu_old), ("tok", ct), 0)
        return W


def run(ctx: Any) -> None:
    hdr = HDR_GEN if translate(ctx) else HDR_NOGEN
    ctx.prove(
        ["prop/P_C14.vo", "refuted/R_C14.vo"],
        {
            "P_C14": [
                "C14_cache_sound", "C14_hit_same_identity", "C14_hit_same_caller", "C14_size_le_cap",
                "C14_divergence_only_served_vs_call_rejection", "C14_step_transparent_partial",
                "C14_cache_transparent_partial", "C14_any_two_cache_populations_agree_partial",
                "C14_dated_miss_transparent_for_genuine_call_token", "C14_cold_reference_has_no_entries",
            ],
            "R_C14": ["C14_cache_transparent_refuted", "C14_transparent_refuted_honest_client_ttl", "C14_transparent_refuted_method_type"],
        },
    )
    # separate build: a source whose guards / order changed breaks exactly these obligations
    ctx.prove(["tie/T_CallCache.vo"], {"T_CallCache": ["callcache_tie", "C14_source_cache_ops", "C14_source_size_le_cap", "C14_source_ttl_verdict"]})
    quick = ctx.tier == "quick"
    rng = ctx.rng
    D = Driver(ctx)
    ctx.rule = ("case = one history (init / continuation / tick / clear; presented tokens real, forged, garbage, absent, foreign, stale) run on "
                "2-3 real apps sharing a key with capacities in 0..3 and token TTL 0|10 s under one logical clock; every continuation is also sent "
                "to a cache-less reference app at the same instant; distinct by the rendered history; non-trivial = at least one continuation "
                "that was served from a cache hit or miss (not only rejections)")
    worlds: list[World] = []
    t0q = T0 * 4
    for which in ("no-call-token", "ttl-honest", "type", "falsy-call-state", "lru", "collide", "expiry-edges"):
        caps = {"lru": [2, 0], "collide": [3, 1]}.get(which, [3, 2])
        worlds.append(D.directed(10, caps, t0q + rng.randrange(4), which))
        ctx.tally("scenario", which)
    n_hist = 14 if quick else 480
    for i in range(n_hist):
        nw = rng.choice([2, 3])
        caps = [rng.randrange(0, 4) for _ in range(nw)]
        ttl = 0 if i % 7 == 6 else 10
        W = World(ttl, caps, t0q + rng.randrange(4))
        D.random_history(W, rng.randrange(8, 13) if quick else rng.randrange(8, 25))
        worlds.append(W)
        ctx.tally("scenario", "random")
        ctx.tally("workers", nw)
        for c in caps:
            ctx.tally("capacity", c)
        ctx.tally("ttl", ttl)
    cases = []
    for W in worlds:
        served = any(e[0] in (3, 4) for e in W.expected)
        ctx.case([W.ttl, W.caps, W.t0q, W.hist], nontrivial=served)
        cases.append(W.coq_case())
    ctx.sample({"ttl": worlds[1].ttl, "caps": worlds[1].caps, "history": worlds[1].plain, "outcomes": worlds[1].expected})
    for k, v in sorted(D.arms.items()):
        ctx.tally("arm", f"{k} x{v}")
    ok, bad, clog = ctx.coq_mismatches(hdr, "run_case", "list_eqb (list_eqb N.eqb)", cases, "bool * N * list N * N * list req", "list (list N)", shard=8)
    ctx.count("model_cases", len(cases))
    ctx.obligation("correspondence:M_CallCache.run_case", "correspondence", ok and not bad, clog if not ok else f"{len(bad)} of {len(cases)} histories disagree")
    for i in bad[:3]:
        shown = ctx.coq_show(hdr, f"run_case {cases[i][0]}")
        ctx.violation("model-impl-disagree", "implementation and model answer a history differently",
                      {"ttl": worlds[i].ttl, "caps": worlds[i].caps, "history": worlds[i].plain, "impl": worlds[i].expected + [worlds[i].sizes()], "model": shown[-1500:]})

    # identities: aad tail and cache identity of the model vs the real functions
    from vgi_rpc.http.server._state_token import _CallStateCache
    from vlib.coqterm import cbytes

    import harness.c14_service as S

    idents = IDENTS + [("a", "b"), ("", ""), (None, None), ("x", ""), ("", "x"), ("anonymous", ""), ("d.o-m", "p_r:i/n")]
    W0 = worlds[0]
    icases = [(World.c_auth(i), f"({cbytes(W0.aad_tail(i))}, {cbytes(_CallStateCache._identity(S.auth_of(i)).encode())})") for i in idents]
    ok2, bad2, clog2 = ctx.coq_mismatches(HDR, "id_case", "pair_eqb (list_eqb N.eqb) (list_eqb N.eqb)", icases, "auth", "list N * list N")
    ctx.obligation("correspondence:M_CallCache.id_case", "correspondence", ok2 and not bad2, clog2 if not ok2 else f"{len(bad2)} identities disagree")
    for i in bad2[:3]:
        ctx.violation("identity-model-disagree", "aad tail / cache identity differ from the model", {"ident": repr(idents[i])})

    ctx.assumptions += [
        "ideal AEAD: a presented token opens iff a holder of the shared key sealed exactly that record for the presenting identity and slot (C12)",
        "call ids never repeat (os.urandom(16) modelled as a counter)",
        "one clock reading per request; the logical clock replaces `time` in _state_token and _app_stream",
        "the turn is an uninterpreted function of (method, resolved call, cursor state, request body); a cached _ResolvedCall behaves like "
        "the one deserialized from the call token (checked on the harness service by correspondence, not proved)",
        "identities are ASCII in the correspondence (str vs UTF-8 bytes of the two identity renderings are not distinguished in the model)",
        "single-threaded requests: the cache lock discipline is not part of this property",
    ]
