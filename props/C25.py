"""C25 Sticky sessions are isolated by worker and identity.

proof        : coq/prop/P_C25.v over model/M_StickyTok.v (lib/Layout.v for the plaintext and AAD layouts).  The AEAD and
               Python's utf-8 decoder enter as Section parameters; "tampered tokens are refused" rests on the premise that
               a presented ciphertext which opens under the worker's key and the caller's AAD was sealed by a key holder
               (ciphertext integrity as an inversion principle), "genuine tokens are served" on AEAD correctness.
regenerated  : translate/t_c25_layout.py -> gen/G_StickyTok.v: constants, the plaintext layout of _seal_session_token, the AAD
               layouts of _compute_aad, the _principal_key shapes, the codec of the server-id decoding, SessionLostError
               messages, DELETE statuses; the transcribed functions are shape-checked against the source AST.
               tie/T_StickyTok.v proves generated = modelled, restates the layout theorems over the generated layouts, and
               demands the codec under which a worker accepts its own tokens.
correspondence: real Falcon apps (make_wsgi_app(enable_sticky=True)), one per worker (server ids ASCII / non-ASCII / empty /
               aliasing, shared and distinct keys), real tokens harvested from responses, staged session-id collisions
               between workers, logical clock (``_sticky.time``).  Presented through POST /use, POST /use_close and
               DELETE /__session__: every single-bit flip of the token text and of the sealed envelope, truncations,
               extensions, junk insertions, re-encodings, every worker x identity pair (incl. anonymous and
               concatenation-colliding identities), well-sealed malformed payloads, a relabelled stream-state token; at the
               lifecycle positions live / at expiry / expired / closed by DELETE / closed by close_session / reaped /
               shutdown.  Each step is compared with M_StickyTok.run_case started from a snapshot of the REAL registry:
               observation (error class, dispatch, bound session, close header, DELETE status, minted token text) and the
               registry afterwards.

Readings adopted where the statement leaves room
  * a *token* is the sealed envelope; header texts that base64-decode (Python's lenient urlsafe decoder: characters
    outside the alphabet skipped, unused trailing bits ignored, surrounding whitespace stripped) to the SAME envelope are
    the same token.  "Tampered" = the envelope differs from every envelope a key holder sealed.
  * "caller identity" = the identity as the sticky layer sees it: anonymous, or ((domain or ""), (principal or "")).
    Domains are NUL-free (a domain containing NUL collides with another (domain, principal) split both in the AAD and in
    _principal_key; R_C25 exhibits the collision; AuthContext does not forbid it, but domains are operator constants).
  * "expired": a session is live while now <= expires_at (the code evicts when expires_at < now); expires_at = the clock at
    open + the per-call ttl when one is given (0 and negative values included: such a session is expired at creation or at
    the next instant), the server default only when the ttl is omitted (None).
  * "same worker": workers are told apart by (key, server_id); two workers sharing key AND server_id are one worker for
    this layer (deployment precondition), session ids are fresh within a worker (96 random bits).
  * "session_lost error": the Arrow error response with error_kind session_lost (HTTP 200 + X-VGI-RPC-Error, the
    framework's convention for 500), with the method not invoked; which of the four messages is sent is not constrained
    for POST; for DELETE every non-204 response must be identical (status, headers except the request id, body).
  * a request without the header (or with an empty one) is not a presentation: it is dispatched without a session.
Concurrency / close ordering is C26, lifecycle / opt-in / drain is C27.
"""
from __future__ import annotations

import base64
import hashlib
import struct
from typing import Any

META = {
    "id": "C25",
    "technique": "Coq proof over an executable model with an ideal-AEAD section (Layout injectivity, parser = layout decoder, registry "
    "invariant over histories) + regenerated layouts/constants/codec tie with AST shape checks + step-wise differential correspondence "
    "on exhaustive mutations of real tokens x (worker, identity) x lifecycle positions",
    "level_text": "Coq theorems for all header texts / identities / workers / clocks / histories: a presentation resumes a session iff its "
    "envelope was sealed by THIS worker for THIS identity and the session is still registered and unexpired; every other non-empty "
    "presentation is session_lost with no dispatch and no close; DELETE answers 204 iff the same condition holds and is the constant "
    "200 response otherwise; closed / evicted / expired sessions never come back.  Layouts, constants and the server-id codec are "
    "regenerated from the source on every run; the transcribed functions are tied by AST shape checks and by running the real Falcon "
    "apps step by step against the model from snapshots of the real registry.",
    "level_note": "partial: cryptographic strength of XChaCha20-Poly1305 is a premise (checked empirically on the mutation set); the version "
    "byte of the envelope is not authenticated and stream-state tokens share key and AAD, so 'sealed by a key holder as a session token' "
    "is part of the premise; base64 and str.strip are modelled from CPython 3.13 and validated by correspondence (decode . encode = id is a theorem "
    "for all byte strings); time is integral.",
    "design_ref": "§5 C25",
}

T0 = 1_700_000_000
TTL = 100
LOST = {
    "malformed session token": 1,
    "session token verification failed": 2,
    "session token was issued by a different worker (server_id mismatch)": 3,
    "session not found, expired, or principal mismatch": 4,
}
K1 = bytes(range(1, 33))
K2 = bytes(range(101, 133))

# name -> (server_id, key)
WORKERS: dict[str, tuple[str, bytes]] = {
    "A": ("worker-a", K1),
    "B": ("worker-b", K1),
    "C": ("worker-a", K2),
    "D": ("a1b2c3d4e5f6", K1),
    "U": ("w\u00f6rker", K1),
    "V": ("w\ufffd\ufffdrker", K1),
    "E": ("", K1),
}
IDENTS: list[Any] = [
    None,
    ("jwt", "alice"),
    ("jwt", "bob"),
    ("mtls", "alice"),
    ("", "anonymous"),
    (None, "anonymous"),
    ("a", "bc"),
    ("ab", "c"),
    ("a", "b\x00c"),
    ("a\x00b", "c"),
    ("dom", "é-ü"),
    ("jwt", None),
]
ALICE = 1


def translate(ctx: Any) -> bool:
    from translate import t_c25_layout

    return bool(ctx.gen("G_StickyTok", lambda: t_c25_layout.generate(ctx.repo)))


def _ms(t: Any) -> int:
    """Seconds (multiples of 1/4 s, exact binary floats) -> integral milliseconds, the time unit of the model."""
    v = t * 1000
    if v != int(v):
        raise RuntimeError(f"time {t!r} is not a whole number of milliseconds")
    return int(v)


def _norm_ident(i: Any) -> Any:
    if i is None:
        return None
    return ((i[0] or "").encode(), (i[1] or "").encode())


def _in_quantifier(i: Any) -> bool:
    """Identities the property quantifies over: NUL-free domain."""
    return i is None or "\x00" not in (i[0] or "")


def _lenient_envelope(hdr: str | None) -> bytes | None:
    """What Python's own decoder makes of the header (independent of the Coq model)."""
    if not hdr:
        return None
    t = hdr.strip()
    try:
        return base64.urlsafe_b64decode((t + "=" * (-len(t) % 4)).encode("ascii"))
    except Exception:  # noqa: BLE001
        return None


class World:
    def __init__(self, ctx: Any) -> None:
        from harness import c25_service as S

        self.ctx = ctx
        self.S = S
        self.clk, self.sec = S.install_shims()
        self.workers = {n: S.Worker(n, sid, key) for n, (sid, key) in WORKERS.items()}
        self.minted: dict[bytes, dict[str, Any]] = {}  # envelope -> facts of the sealed session token
        self.aead_rows: dict[tuple[bytes, bytes, bytes, bytes], bytes] = {}
        self.text_rows: dict[bytes, str] = {}
        self.crafted: set[bytes] = set()  # envelopes the harness sealed itself as a (possibly buggy) key holder
        self.ledger: dict[tuple[str, bytes], dict[str, Any]] = {}  # (worker, sid) -> facts of the live session (harness bookkeeping)
        self.steps: list[dict[str, Any]] = []
        self.now = T0
        self.ntag = 0
        self.base200: Any = None

    # ---- helpers ---------------------------------------------------------------
    def aad(self, ident: Any) -> bytes:
        from vgi_rpc.http.server._state_token import _compute_aad
        from vgi_rpc.rpc import AuthContext

        return _compute_aad(AuthContext.anonymous() if ident is None else AuthContext(domain=ident[0], authenticated=True, principal=ident[1]))

    def snapshot(self, w: Any) -> tuple[tuple[bytes, int, bytes], ...]:
        out = []
        for sid, e in w.registry._entries.items():
            out.append((bytes(sid), _ms(e.expires_at), e.principal_key.encode()))
        return tuple(out)

    def record_payload(self, raw: bytes, key: bytes, ident: Any) -> bytes:
        from vgi_rpc import crypto

        aad = self.aad(ident)
        payload = crypto.open_bytes(raw, key, aad=aad, version=raw[0])
        self.aead_rows[(key, aad, raw[1:25], raw[25:])] = payload
        if len(payload) >= 9 and len(payload) == 9 + payload[8] + 20:
            sb = payload[9 : 9 + payload[8]]
            self.text_rows[sb] = sb.decode("utf-8", errors="replace")
        return payload

    def craft(self, key: bytes, ident: Any, payload: bytes, version: int = 1) -> str:
        """The harness acting as a (possibly buggy) holder of the key: seal an arbitrary payload with the real cipher."""
        from vgi_rpc import crypto

        raw = crypto.seal_bytes(payload, key, aad=self.aad(ident), version=version)
        self.record_payload(raw, key, ident)
        self.crafted.add(raw)
        return base64.urlsafe_b64encode(raw).rstrip(b"=").decode("ascii")

    def set_now(self, now: Any) -> None:
        self.now = now
        self.clk.now = float(now)

    # ---- steps against the REAL implementation ---------------------------------------
    def _post(self, w: Any, method: str, row: dict[str, Any], ident: Any, hdr: str | None, accept: bool = False) -> Any:
        from harness.rawrpc import error_of, read_streams, request_bytes
        from vgi_rpc.http._common import SESSION_ACCEPT_HEADER, SESSION_CLOSE_HEADER, SESSION_HEADER

        S = self.S
        h = {"Content-Type": S.ARROW_CT, **S.ident_header(ident)}
        if hdr is not None:
            h[SESSION_HEADER] = hdr
        if accept:
            h[SESSION_ACCEPT_HEADER] = "true"
        del S.LOG[:]
        del S.SEEN_HEADER[:]
        r = w.client.simulate_post("/" + method, body=request_bytes(method, w.schemas[method], row), headers=h)
        err = None
        try:
            st = read_streams(r.content)
            err = error_of(st[0]) if st else None
        except Exception as e:  # noqa: BLE001
            err = ("unparseable", type(e).__name__, None)
        seen = S.SEEN_HEADER[-1] if S.SEEN_HEADER else None
        return r, err, list(S.LOG), seen, r.headers.get(SESSION_CLOSE_HEADER) == "true", r.headers.get(SESSION_HEADER)

    def open(self, wname: str, ident: Any, ttl: Any, sid: bytes, via: str = "open_s") -> str | None:
        """ttl: None (omitted), int or float seconds.  via open_s: float(int ttl); via open_x: the value as given."""
        w = self.workers[wname]
        before = self.snapshot(w)
        self.ntag += 1
        tag = f"s{self.ntag}"
        self.sec.script = [sid]
        if via == "open_s":
            r, err, log, _seen, _closehdr, tok = self._post(w, "open_s", {"ttl": ttl, "tag": tag}, ident, None, accept=True)
        else:
            mode, val = (0, 0) if ttl is None else (1, _ms(ttl)) if isinstance(ttl, float) else (2, int(ttl))
            r, err, log, _seen, _closehdr, tok = self._post(w, "open_x", {"mode": mode, "ttl_value": val, "tag": tag}, ident, None, accept=True)
        self.sec.script = []
        after = self.snapshot(w)
        # the property's own reading of the lifetime: the per-call ttl whenever one is given, the default only for None
        eff = w.default_ttl if ttl is None else ttl
        self.ctx.tally("open_ttl", repr(ttl))
        step = {"kind": "open", "worker": wname, "ident": ident, "now": self.now, "before": before, "after": after, "ttl": None if ttl is None else _ms(ttl), "sid": sid, "cls": "open"}
        if r.status_code != 200 or err is not None or not tok:
            step["obs"] = [3, 0, 0, 0]
            step["nonce"] = b""
            self.steps.append(step)
            return None
        raw = base64.urlsafe_b64decode(tok + "=" * (-len(tok) % 4))
        payload = self.record_payload(raw, w.key, ident)
        self.minted[raw] = {"worker": wname, "ident": _norm_ident(ident), "sid": sid, "exp": self.now + eff, "tag": tag, "text": tok, "payload": payload, "raw_ident": ident}
        self.ledger[(wname, sid)] = {"exp": self.now + eff, "tag": tag, "ident": _norm_ident(ident)}
        step["obs"] = [3, 1, 0, 0] + [ord(c) for c in tok]
        step["nonce"] = raw[1:25]
        self.steps.append(step)
        return tok

    def expected_access(self, wname: str, ident: Any, seen: str | None) -> tuple[bool, dict[str, Any] | None, str]:
        """The property's own predicate: (access expected, facts of the presented token, why not)."""
        raw = _lenient_envelope(seen)
        f = self.minted.get(raw) if raw is not None else None
        if raw is not None and raw in self.crafted:
            return False, None, "crafted"  # sealed by a key holder outside _seal_session_token: not constrained by the property
        if f is None:
            return False, None, "tampered"
        if f["worker"] != wname:
            return False, f, "cross-worker"
        if f["ident"] != _norm_ident(ident):
            return False, f, "cross-identity"
        live = self.ledger.get((wname, f["sid"]))
        if live is None or live["tag"] != f["tag"]:
            return False, f, "after-close"
        if self.now > live["exp"]:
            # the owner's presentation reaches registry.get, which evicts in-line: the session is gone for good
            del self.ledger[(wname, f["sid"])]
            return False, f, "after-expiry"
        return True, f, ""

    def present(self, cls: str, wname: str, ident: Any, hdr: str | None, method: str = "use", **info: Any) -> None:
        """POST /use or /use_close with the header; oracle on the real answer; record the step for the model."""
        ctx = self.ctx
        w = self.workers[wname]
        before = self.snapshot(w)
        try:
            r, err, log, seen, closehdr, _tok = self._post(w, method, {"x": 1}, ident, hdr)
        except (ValueError, UnicodeError) as e:
            ctx.count("unsendable_headers")
            ctx.notes.append(f"header not sendable through the test client: {type(e).__name__}") if len(ctx.notes) < 3 else None
            return
        after = self.snapshot(w)
        ctx.count("impl_runs")
        ctx.tally("class", cls)
        ctx.tally("worker", wname)
        ctx.tally("op", method)
        dispatched = bool(log)
        sid_hex = log[0][3] if log else None
        tag = log[0][2] if log else None
        if err is None:
            code = 0
        elif err[0] == "SessionLostError" and err[2] == "session_lost":
            code = LOST.get(err[1].removeprefix("SessionLostError: "), 98)
        else:
            code = 99
        obs = [1, code, int(dispatched), int(closehdr)] + (list(bytes.fromhex(sid_hex)) if sid_hex else [])
        self.steps.append({"kind": "call", "worker": wname, "ident": ident, "now": self.now, "before": before, "after": after, "hdr": seen, "closes": method == "use_close", "obs": obs, "cls": cls})
        # ---- oracle ----
        want, f, why = self.expected_access(wname, ident, seen)
        repl = {"class": cls, "worker": wname, "server_id": w.server_id, "key_hex": w.key.hex(), "identity": repr(ident), "now": self.now, "method": method, "header": seen,
                "minted_on": None if f is None else f["worker"], "minted_for": None if f is None else repr(f["raw_ident"]), "session_expires": None if f is None else f["exp"],
                "status": r.status_code, "error": None if err is None else list(err[:3]), "invocations": [list(x) for x in log], **info}
        nontrivial = not (want and f is not None and f["text"] == seen)
        ctx.case([wname, repr(ident), self.now, method, seen, "post"], nontrivial=nontrivial)
        if not seen:
            if not dispatched or tag is not None or code != 0:
                ctx.violation("no-token-request-not-plain", "a request without a session header was not dispatched as a plain call", repl)
            return
        if why == "crafted" or not _in_quantifier(ident) or (f is not None and not _in_quantifier(f["raw_ident"])):
            return
        granted = dispatched and tag is not None
        if want:
            if not granted or tag != f["tag"]:  # type: ignore[index]
                key = "nonascii-server-id-own-token-refused" if not w.server_id.isascii() and code == 3 else "genuine-token-refused"
                ctx.violation(key, "a live session was presented by its owner on the worker that minted it and was not resumed", repl)
            elif method == "use_close":
                self.ledger.pop((wname, f["sid"]), None)  # type: ignore[index]
                if not closehdr:
                    ctx.violation("close-session-without-close-header", "close_session() ran but the response does not tell the client", repl)
        else:
            if granted:
                k = {"tampered": "access-with-tampered-token", "cross-worker": "access-on-other-worker", "cross-identity": "access-under-other-identity",
                     "after-close": "access-after-close", "after-expiry": "access-after-expiry"}[why]
                if why == "cross-worker" and not w.server_id.isascii():
                    k = "nonascii-server-id-alias-cross-worker"
                ctx.violation(k, f"a session was resumed although the presentation is {why}", repl)
            elif dispatched:
                ctx.violation("dispatched-without-session", f"the method ran (without a session) although the presentation is {why}", repl)
            elif code not in (1, 2, 3, 4):
                ctx.violation("refusal-not-session-lost", "a refused presentation was not answered with a session_lost error", repl)

    def delete(self, cls: str, wname: str, ident: Any, hdr: str | None, **info: Any) -> None:
        from vgi_rpc.http._common import SESSION_CLOSE_HEADER, SESSION_HEADER

        ctx = self.ctx
        S = self.S
        w = self.workers[wname]
        before = self.snapshot(w)
        h = {**S.ident_header(ident)}
        if hdr is not None:
            h[SESSION_HEADER] = hdr
        del S.LOG[:]
        del S.SEEN_HEADER[:]
        try:
            r = w.client.simulate_delete("/__session__", headers=h)
        except (ValueError, UnicodeError):
            ctx.count("unsendable_headers")
            return
        seen = S.SEEN_HEADER[-1] if S.SEEN_HEADER else None
        after = self.snapshot(w)
        ctx.count("impl_runs")
        ctx.tally("class", cls)
        ctx.tally("worker", wname)
        ctx.tally("op", "DELETE")
        closehdr = r.headers.get(SESSION_CLOSE_HEADER) == "true"
        self.steps.append({"kind": "delete", "worker": wname, "ident": ident, "now": self.now, "before": before, "after": after, "hdr": seen, "obs": [2, r.status_code, int(closehdr), 0], "cls": cls})
        want, f, why = self.expected_access(wname, ident, seen)
        shape = (r.status_code, r.content, tuple(sorted((k.lower(), v) for k, v in r.headers.items() if k.lower() != "x-request-id")))
        repl = {"class": cls, "worker": wname, "server_id": w.server_id, "identity": repr(ident), "now": self.now, "method": "DELETE", "header": seen,
                "minted_on": None if f is None else f["worker"], "minted_for": None if f is None else repr(f["raw_ident"]), "status": r.status_code,
                "headers": dict(shape[2]), "body_hex": r.content.hex(), **info}
        ctx.case([wname, repr(ident), self.now, "DELETE", seen], nontrivial=not (want and f is not None and f["text"] == seen))
        if S.LOG:
            ctx.violation("delete-invoked-a-method", "DELETE of the session endpoint invoked a service method", repl)
        if why == "crafted" or not _in_quantifier(ident) or (f is not None and not _in_quantifier(f["raw_ident"])):
            return
        if want:
            if r.status_code != 204:
                key = "nonascii-server-id-own-token-refused" if not w.server_id.isascii() else "delete-live-owned-not-204"
                ctx.violation(key, "DELETE of a live session by its owner on its worker did not answer 204", repl)
            else:
                self.ledger.pop((wname, f["sid"]), None)  # type: ignore[index]
        else:
            if r.status_code == 204:
                k = "delete-204-" + why
                if why == "cross-worker" and not w.server_id.isascii():
                    k = "nonascii-server-id-alias-cross-worker"
                ctx.violation(k, f"DELETE answered 204 although the presentation is {why}", repl)
            elif self.base200 is None:
                self.base200 = (shape, repl)
                if r.status_code != 200:
                    ctx.violation("delete-otherwise-not-200", "DELETE that closes nothing did not answer 200", repl)
            elif shape != self.base200[0]:
                ctx.violation("delete-200-distinguishable", "two DELETE responses that close nothing differ (status, headers or body)", {**repl, "other": {"status": self.base200[0][0], "headers": dict(self.base200[0][2]), "class": self.base200[1]["class"]}})

    def reap(self, wname: str) -> None:
        w = self.workers[wname]
        before = self.snapshot(w)
        w.registry.drain_expired()
        after = self.snapshot(w)
        for (wn, sid), f in list(self.ledger.items()):
            if wn == wname and f["exp"] < self.now:
                del self.ledger[(wn, sid)]
        self.steps.append({"kind": "reap", "worker": wname, "ident": None, "now": self.now, "before": before, "after": after, "obs": [4, 0, 0, 0], "cls": "reap"})

    def shutdown(self, wname: str) -> None:
        w = self.workers[wname]
        before = self.snapshot(w)
        w.registry.shutdown()
        after = self.snapshot(w)
        for (wn, sid) in list(self.ledger):
            if wn == wname:
                del self.ledger[(wn, sid)]
        self.steps.append({"kind": "shutdown", "worker": wname, "ident": None, "now": self.now, "before": before, "after": after, "obs": [4, 0, 0, 0], "cls": "shutdown"})


def _flip(tok: str, i: int, bit: int) -> str:
    return tok[:i] + chr(ord(tok[i]) ^ (1 << bit)) + tok[i + 1 :]


def _b64(raw: bytes) -> str:
    return base64.urlsafe_b64encode(raw).rstrip(b"=").decode("ascii")


THEOREMS = {
    "P_C25": [
        "C25_aad_injective", "C25_plaintext_exact", "C25_access_iff_same_worker_identity_live", "C25_other_presentations_session_lost_no_dispatch",
        "C25_delete_204_iff_live_owned", "C25_delete_otherwise_indistinguishable", "C25_closed_evicted_expired_stay_lost", "C25_registry_only_from_opens",
        "C25_own_token_accepted_iff_codec_roundtrips", "C25_armour_roundtrip",
    ],
    "T_StickyTok": ["constants_tie", "layouts_tie", "messages_tie", "C25_source_plaintext_decodable", "C25_source_aad_injective"],
    "L_StickyTokCodecTie": ["codec_tie", "C25_source_access_iff"],
}


def run(ctx: Any) -> None:
    gen_ok = translate(ctx)
    ctx.prove(["model/M_StickyTok.vo", "gen/G_StickyTok.vo"], {})  # what the correspondence needs, whatever happens to the proofs
    ctx.prove(["prop/P_C25.vo", "refuted/R_C25.vo"], {"P_C25": THEOREMS["P_C25"]})
    ctx.prove(["tie/T_StickyTok.vo"], {"T_StickyTok": THEOREMS["T_StickyTok"]})
    # separate build: a source whose server-id codec does not round-trip breaks exactly these obligations
    ctx.prove(["proof/L_StickyTokCodecTie.vo"], {"L_StickyTokCodecTie": THEOREMS["L_StickyTokCodecTie"]})
    ctx.log("proofs checked")

    from translate import t_c25_layout

    try:
        codec = t_c25_layout.describe(ctx.repo)["codec"]
    except Exception:  # noqa: BLE001
        codec = "?"
    # the model runs with the regenerated codec; when the translation is broken (a transcribed function changed shape) the
    # correspondence still runs, with the codec read directly from the decode call, so that a failing input can be found
    codec_term = "gen_sid_codec" if gen_ok else {"ascii": "AsciiReplace", "utf-8": "Utf8Replace", "utf8": "Utf8Replace"}.get(codec.lower(), "AsciiReplace")
    rng = ctx.rng
    quick = ctx.tier == "quick"
    W = World(ctx)
    W.set_now(T0)

    def sid() -> bytes:
        return bytes(rng.randrange(256) for _ in range(12))

    # ---- phase 1: open sessions (real tokens) ---------------------------------------------------------------------
    toks: dict[tuple[str, int, int], str] = {}
    shared = sid()  # staged collision: the same session id on A, B, C (other key), U, V, for alice
    for wn in WORKERS:
        for ii in range(len(IDENTS)):
            if wn not in ("A", "D") and ii not in (0, ALICE, 2):
                continue
            t = W.open(wn, IDENTS[ii], TTL, sid())
            if t is None:
                ctx.violation("open-session-failed", "open_session did not mint a token", {"worker": wn, "identity": repr(IDENTS[ii])})
                continue
            toks[(wn, ii, 0)] = t
    for wn in ("A", "B", "C", "U", "V"):
        t = W.open(wn, IDENTS[ALICE], TTL, shared)
        if t is not None:
            toks[(wn, ALICE, 1)] = t
    # a second session of alice on A with a shorter TTL (expiry positions), and spare ones for the closing positions
    toks[("A", ALICE, 2)] = W.open("A", IDENTS[ALICE], 10, sid()) or ""
    for n in range(3, 9):
        toks[("A", ALICE, n)] = W.open("A", IDENTS[ALICE], TTL, sid()) or ""
    toks[("A", 0, 3)] = W.open("A", None, TTL, sid()) or ""
    toks[("D", ALICE, 3)] = W.open("D", IDENTS[ALICE], TTL, sid()) or ""
    ctx.count("harvested_tokens", len(W.minted))

    W.set_now(T0 + 1)
    # ---- phase 2: presentations at the live position ---------------------------------------------------------------
    # 0. genuine
    for (wn, ii, n), t in toks.items():
        W.present("genuine", wn, IDENTS[ii], t)
    # 0b. no header / empty header / blank header
    for wn in ("A", "U"):
        for h in (None, "", " ", "\t"):
            W.present("no-token", wn, IDENTS[ALICE], h)
            W.delete("no-token", wn, IDENTS[ALICE], h)

    base = [("A", ALICE, 0), ("D", 0, 0)] if quick else [("A", ALICE, 0), ("D", 0, 0), ("B", 0, 0), ("D", ALICE, 0), ("A", 10, 0), ("E", ALICE, 0)]
    # 1. every single-bit flip of the token text (POST), a quarter of them through DELETE as well
    for wn, ii, n in base:
        t = toks[(wn, ii, n)]
        for i in range(len(t)):
            for bit in range(8):
                m = _flip(t, i, bit)
                W.present("flip-text", wn, IDENTS[ii], m, base=t)
                if (i * 8 + bit) % (4 if quick else 1) == 0:
                    W.delete("flip-text", wn, IDENTS[ii], m, base=t)
    # 2. every single-bit flip of the sealed envelope (canonical re-encoding)
    for wn, ii, n in base[: (1 if quick else None)]:
        t = toks[(wn, ii, n)]
        raw = base64.urlsafe_b64decode(t + "=" * (-len(t) % 4))
        for i in range(len(raw)):
            for bit in range(8):
                mut = bytearray(raw)
                mut[i] ^= 1 << bit
                W.present("flip-raw", wn, IDENTS[ii], _b64(bytes(mut)), base=t)
                if (i * 8 + bit) % (8 if quick else 1) == 0:
                    W.delete("flip-raw", wn, IDENTS[ii], _b64(bytes(mut)), base=t)
    # 3. truncations, extensions, junk, re-encodings
    for wn, ii, n in base:
        t = toks[(wn, ii, n)]
        raw = base64.urlsafe_b64decode(t + "=" * (-len(t) % 4))
        for k in range(len(t)):
            W.present("truncate-text", wn, IDENTS[ii], t[:k], base=t)
            if k % 3 == 0:
                W.delete("truncate-text", wn, IDENTS[ii], t[:k], base=t)
                W.present("truncate-text", wn, IDENTS[ii], t[len(t) - k :], base=t)
        for k in range(0, len(raw), 1 if not quick else 2):
            W.present("truncate-raw", wn, IDENTS[ii], _b64(raw[:k]), base=t)
            W.present("truncate-raw", wn, IDENTS[ii], _b64(raw[len(raw) - k :]), base=t)
        variants = [
            ("pad1", t + "="), ("pad2", t + "=="), ("pad4", t + "===="), ("extA", t + "A"), ("extAA", t + "AA"), ("extAAAA", t + "AAAA"), ("preA", "A" + t), ("preAAAA", "AAAA" + t),
            ("junk-mid", t[:7] + "!" + t[7:]), ("junk-many", "".join(c + "*" for c in t)), ("junk-end", t + "!"), ("junk-nul", t[:9] + "\x00" + t[9:]), ("dot", t[:20] + "." + t[20:]),
            ("space-mid", t[:30] + " " + t[30:]), ("ws-around", "  " + t + " \t"), ("fs-around", "\x1c" + t + "\x1f"), ("nbsp-around", "\xa0" + t + "\x85"), ("nl-end", t + "\n"),
            ("eq-mid", t[:40] + "=" + t[40:]), ("eq-mid4", t[:40] + "====" + t[40:]), ("eq-after-quad2", t[:42] + "==" + t[42:]), ("std-alphabet", t.replace("-", "+").replace("_", "/")),
            ("double", _b64(t.encode())), ("hex", raw.hex()), ("lower", t.lower()), ("hibit", t[:5] + "\xe9" + t[6:]), ("hibit-end", t + "\xff"), ("twice", t + t), ("twice-eq", t + "=" + t),
            ("raw-ext0", _b64(raw + b"\x00")), ("raw-ext-tag", _b64(raw + raw[-16:])), ("raw-pre0", _b64(b"\x00" + raw)), ("ver0", _b64(b"\x00" + raw[1:])), ("ver5", _b64(b"\x05" + raw[1:])),
            ("only-eq", "===="), ("only-junk", "!!!!"), ("one-char", "A"),
        ]
        # every value of the unused trailing bits (same envelope, other text)
        alpha = "ABCDEFGHIJKLMNOPQRSTUVWXYZabcdefghijklmnopqrstuvwxyz0123456789-_"
        unused = {0: 0, 1: 4, 2: 2}[len(raw) % 3]
        v = alpha.index(t[-1])
        for low in range(1, 1 << unused):
            variants.append((f"unused-bits-{low}", t[:-1] + alpha[v | low]))
        for name, h in variants:
            W.present("variant", wn, IDENTS[ii], h, base=t, variant=name)
            if _lenient_envelope(h) not in W.minted:  # same-envelope texts would close the base session: see phase 3
                W.delete("variant", wn, IDENTS[ii], h, base=t, variant=name)
    # 4. every token on every worker under its own identity; under every identity on its own worker; sampled other pairs
    for (wn, ii, n), t in toks.items():
        for w2 in WORKERS:
            if w2 != wn:
                W.present("cross-worker", w2, IDENTS[ii], t, minted=[wn, repr(IDENTS[ii])])
                if not quick or (len(t) + n) % 2 == 0:
                    W.delete("cross-worker", w2, IDENTS[ii], t, minted=[wn, repr(IDENTS[ii])])
        for jj in range(len(IDENTS)):
            if jj != ii:
                cls = "cross-identity" if _norm_ident(IDENTS[jj]) != _norm_ident(IDENTS[ii]) else "alias-identity"
                if quick and n != 0 and jj not in (0, ALICE, 2):
                    continue
                W.present(cls, wn, IDENTS[jj], t, minted=[wn, repr(IDENTS[ii])])
                if cls == "cross-identity" and (not quick or jj % 2 == 0):
                    W.delete(cls, wn, IDENTS[jj], t, minted=[wn, repr(IDENTS[ii])])
        for _ in range(2 if quick else 8):
            w2, jj = rng.choice(list(WORKERS)), rng.randrange(len(IDENTS))
            if w2 != wn and _norm_ident(IDENTS[jj]) != _norm_ident(IDENTS[ii]):
                W.present("cross-worker-identity", w2, IDENTS[jj], t, minted=[wn, repr(IDENTS[ii])])
    # 5. well-sealed envelopes around malformed / foreign payloads (a key holder with a bug, another token kind)
    for wn, ii in (("A", ALICE), ("E", ALICE), ("U", ALICE)):
        w = W.workers[wn]
        t = toks[(wn, ii, 0)]
        f = W.minted[base64.urlsafe_b64decode(t + "=" * (-len(t) % 4))]
        pl: bytes = f["payload"]
        sidb = w.server_id.encode()
        crafted: list[tuple[str, bytes, int]] = [
            ("empty", b"", 1), ("short8", pl[:8], 1), ("short9", pl[:9], 1), ("cut-1", pl[:-1], 1), ("ext+1", pl + b"\x00", 1),
            ("len+1", pl[:8] + bytes([(pl[8] + 1) % 256]) + pl[9:], 1), ("len255", pl[:8] + b"\xff" + pl[9:], 1),
            ("other-server-id", pl[:8] + bytes([7]) + b"another" + pl[9 + len(sidb) :], 1),
            ("unknown-session", pl[: 9 + len(sidb)] + bytes(12) + pl[-8:], 1),
            ("expiry-zero", pl[:-8] + bytes(8), 1), ("expiry-max", pl[:-8] + b"\xff" * 8, 1), ("created-zero", bytes(8) + pl[8:], 1),
            ("nonascii-id", pl[:8] + bytes([3]) + b"w\xc3\xb6" + pl[9 + len(sidb) :], 1), ("bad-utf8-id", pl[:8] + bytes([2]) + b"a\xff" + pl[9 + len(sidb) :], 1),
            ("wrong-version-2", pl, 2), ("version-0", pl, 0),
            # a stream-state (cursor) token: same key, same AAD, version byte 5, relabelled to 1 by the presenter below
            ("cursor-empty-state", b"\x00" + struct.pack("<Q", T0) + bytes(range(16)) + struct.pack("<I", 0), 5),
            ("cursor-with-state", b"\x00" + struct.pack("<Q", T0) + bytes(range(16)) + struct.pack("<I", 5) + b"state", 5),
        ]
        for name, payload, ver in crafted:
            h = W.craft(w.key, IDENTS[ii], payload, ver)
            W.present("crafted", wn, IDENTS[ii], h, variant=name)
            W.delete("crafted", wn, IDENTS[ii], h, variant=name)
            if ver != 1:
                raw = base64.urlsafe_b64decode(h + "=" * (-len(h) % 4))
                h1 = _b64(b"\x01" + raw[1:])
                W.present("crafted", wn, IDENTS[ii], h1, variant=name + "-relabelled")
                W.delete("crafted", wn, IDENTS[ii], h1, variant=name + "-relabelled")

    # ---- phase 3: lifecycle positions ------------------------------------------------------------------------------
    short = toks[("A", ALICE, 2)]  # expires at T0 + 10
    for d in (9, 10):
        W.set_now(T0 + d)
        W.present("lifecycle-live", "A", IDENTS[ALICE], short)
        W.present("lifecycle-live", "A", IDENTS[2], short)
        W.present("lifecycle-live", "B", IDENTS[ALICE], short)
        W.delete("lifecycle-live", "A", IDENTS[2], short)
    W.set_now(T0 + 11)
    W.delete("lifecycle-expired", "A", IDENTS[2], short)      # other identity: opens? no -- AAD fails, nothing evicted
    W.delete("lifecycle-expired", "A", IDENTS[ALICE], short)  # evicts in-line, answers 200
    W.present("lifecycle-expired", "A", IDENTS[ALICE], short)
    W.present("lifecycle-expired", "A", IDENTS[ALICE], _flip(short, 50, 0), base=short)
    W.set_now(T0 + 5)  # a clock that steps back does not resurrect an evicted session
    W.present("lifecycle-expired", "A", IDENTS[ALICE], short)
    W.delete("lifecycle-expired", "A", IDENTS[ALICE], short)
    W.set_now(T0 + 12)
    # closed by DELETE
    t3 = toks[("A", ALICE, 3)]
    W.delete("lifecycle-live", "B", IDENTS[ALICE], t3)
    W.delete("lifecycle-live", "A", IDENTS[2], t3)
    W.delete("lifecycle-live", "A", None, t3)
    W.present("lifecycle-live", "A", IDENTS[ALICE], t3)
    W.delete("lifecycle-live", "A", IDENTS[ALICE], " " + t3 + " ")
    for _ in range(2):
        W.delete("lifecycle-closed", "A", IDENTS[ALICE], t3)
        W.present("lifecycle-closed", "A", IDENTS[ALICE], t3)
        W.present("lifecycle-closed", "A", IDENTS[ALICE], t3, method="use_close")
        W.present("lifecycle-closed", "B", IDENTS[ALICE], t3)
        W.present("lifecycle-closed", "A", IDENTS[2], t3)
    # closed by DELETE presenting another text of the same envelope (junk characters, padding)
    t7 = toks[("A", ALICE, 7)]
    W.delete("lifecycle-live", "A", IDENTS[ALICE], t7[:7] + "!" + t7[7:] + "==", variant="same-envelope")
    W.delete("lifecycle-closed", "A", IDENTS[ALICE], t7)
    W.present("lifecycle-closed", "A", IDENTS[ALICE], t7)
    # closed by close_session() inside a method
    t4 = toks[("A", ALICE, 4)]
    W.present("lifecycle-live", "A", IDENTS[2], t4, method="use_close")
    W.present("lifecycle-live", "B", IDENTS[ALICE], t4, method="use_close")
    W.present("lifecycle-live", "A", IDENTS[ALICE], _flip(t4, 60, 1), method="use_close", base=t4)
    W.present("lifecycle-live", "A", IDENTS[ALICE], t4, method="use_close")
    W.present("lifecycle-closed", "A", IDENTS[ALICE], t4)
    W.present("lifecycle-closed", "A", IDENTS[ALICE], t4, method="use_close")
    W.delete("lifecycle-closed", "A", IDENTS[ALICE], t4)
    # the anonymous session: closed by its owner only
    ta = toks[("A", 0, 3)]
    W.delete("lifecycle-live", "A", IDENTS[4], ta)
    W.delete("lifecycle-live", "A", IDENTS[ALICE], ta)
    W.present("lifecycle-live", "A", IDENTS[4], ta, method="use_close")
    W.delete("lifecycle-live", "A", None, ta)
    W.present("lifecycle-closed", "A", None, ta)
    # staged collision: closing alice's session on A leaves the equally named one on B alone, and vice versa
    ca, cb = toks[("A", ALICE, 1)], toks[("B", ALICE, 1)]
    W.delete("collision", "B", IDENTS[ALICE], ca)
    W.delete("collision", "A", IDENTS[ALICE], cb)
    W.present("collision", "A", IDENTS[ALICE], cb, method="use_close")
    W.delete("collision", "A", IDENTS[ALICE], ca)
    W.present("collision", "B", IDENTS[ALICE], cb)
    W.present("collision", "A", IDENTS[ALICE], ca)
    W.present("collision", "B", IDENTS[ALICE], ca)
    W.present("collision", "C", IDENTS[ALICE], cb)
    if ("U", ALICE, 1) in toks and ("V", ALICE, 1) in toks:
        cu, cv = toks[("U", ALICE, 1)], toks[("V", ALICE, 1)]
        W.present("collision", "V", IDENTS[ALICE], cu)
        W.present("collision", "U", IDENTS[ALICE], cv)
        W.delete("collision", "V", IDENTS[ALICE], cu)
        W.present("collision", "V", IDENTS[ALICE], cv)
        W.present("collision", "U", IDENTS[ALICE], cu)
    # the non-ASCII worker: its own sessions through DELETE as well
    W.delete("genuine", "U", None, toks[("U", 0, 0)])
    W.present("genuine", "U", None, toks[("U", 0, 0)])
    # reaper eviction: TTL 100 sessions at T0 + 100 (kept), T0 + 101 (evicted)
    t5, t6 = toks[("A", ALICE, 5)], toks[("A", ALICE, 6)]
    W.set_now(T0 + 100)
    W.reap("A")
    W.present("lifecycle-live", "A", IDENTS[ALICE], t5)
    W.set_now(T0 + 101)
    W.present("lifecycle-expired", "B", IDENTS[ALICE], t5)   # other worker: nothing evicted there or here
    W.present("lifecycle-expired", "A", IDENTS[2], t5)       # other identity: not evicted by this request
    W.reap("A")
    W.present("lifecycle-reaped", "A", IDENTS[ALICE], t5)
    W.delete("lifecycle-reaped", "A", IDENTS[ALICE], t6)
    W.reap("D")
    W.present("lifecycle-reaped", "D", None, toks[("D", 0, 0)])
    # per-call TTLs at open: omitted (server default 300 s), 0, 0.0, tiny positive, negative, as int and as float.
    # One session per (ttl, presenting op): the first presentation after expiry evicts the entry.
    T1 = T0 + 120
    W.set_now(T1)
    ttl_toks: dict[tuple[str, str], tuple[Any, str]] = {}
    for ttl in (None, 0, 0.0, 0.5, 0.25, 1, -5, -0.25, -1.0):
        for opn in ("post", "delete", "late"):
            for wn2, ii2 in (("A", ALICE),) if opn != "post" else (("A", ALICE), ("D", 0)):
                t = W.open(wn2, IDENTS[ii2], ttl, sid(), via="open_x")
                if t is None:
                    ctx.violation("open-session-failed", "open_session did not mint a token", {"worker": wn2, "ttl": repr(ttl)})
                    continue
                ttl_toks[(repr(ttl), opn + wn2)] = (ttl, t)
    # at the instant of the open: ttl >= 0 is (still) live, negative is already expired
    for (_r, opn), (ttl, t) in ttl_toks.items():
        wn2, ii2 = opn[-1], (ALICE if opn[-1] == "A" else 0)
        if opn.startswith("post"):
            W.present("ttl-at-open", wn2, IDENTS[ii2], t, ttl=repr(ttl))
            W.present("ttl-at-open", wn2, IDENTS[2], t, ttl=repr(ttl))
        elif opn.startswith("delete"):
            W.delete("ttl-at-open", wn2, IDENTS[2], t, ttl=repr(ttl))
            if ttl is not None and ttl < 0:
                W.delete("ttl-at-open", wn2, IDENTS[ii2], t, ttl=repr(ttl))
    # a quarter of a second later, then at and after each positive TTL; the default-TTL sessions at and after 300 s
    for d in (0.25, 0.5, 0.75, 1, 1.25, 300, 300.25):
        W.set_now(T1 + d)
        for (_r, opn), (ttl, t) in ttl_toks.items():
            wn2, ii2 = opn[-1], (ALICE if opn[-1] == "A" else 0)
            eff = 300 if ttl is None else ttl
            if opn.startswith("late") and d < 300.25:
                continue  # kept untouched until the very end: nothing has evicted these
            if d not in (0.25, 300.25) and not (eff - 0.25 <= d <= eff + 0.25):
                continue  # around the expiry instant of this session only
            if opn.startswith("post") or opn.startswith("late"):
                W.present("ttl-elapsed", wn2, IDENTS[ii2], t, ttl=repr(ttl), elapsed=d)
            else:
                if d <= eff:
                    W.delete("ttl-elapsed", wn2, IDENTS[2], t, ttl=repr(ttl), elapsed=d)  # someone else: closes nothing
                else:
                    W.delete("ttl-elapsed", wn2, IDENTS[ii2], t, ttl=repr(ttl), elapsed=d)
    W.reap("A")
    # shutdown on B while its sessions are still inside their TTL (clock back inside the TTL)
    W.set_now(T0 + 50)
    W.present("lifecycle-live", "B", None, toks[("B", 0, 0)])
    W.shutdown("B")
    W.present("lifecycle-shutdown", "B", None, toks[("B", 0, 0)])
    W.delete("lifecycle-shutdown", "B", None, toks[("B", 0, 0)])
    # a new session after shutdown works and is again isolated
    tn = W.open("B", IDENTS[2], TTL, sid())
    if tn:
        W.present("genuine", "B", IDENTS[2], tn)
        W.present("cross-identity", "B", IDENTS[ALICE], tn)
        W.present("cross-worker", "A", IDENTS[2], tn)
        W.delete("genuine", "B", IDENTS[2], tn)
        W.delete("lifecycle-closed", "B", IDENTS[2], tn)

    ctx.log(f"implementation driven: {len(W.steps)} steps")
    ctx.rule = (
        "steps = (worker: key/server_id/registry snapshot) x logical clock x caller identity x {POST use, POST use_close, DELETE, open, reap, shutdown} x header, "
        "where headers are real tokens and their mutations by class: genuine, flip-text, flip-raw, truncate, variant (padding/junk/whitespace/re-encoding/unused bits), "
        "cross-worker, cross-identity, crafted payload, lifecycle positions, staged session-id collisions; distinct by (worker, identity, clock, op, header); "
        "non-trivial = not the unmodified token presented by its owner on its worker while live"
    )
    ctx.sample({"class": "flip-text", "expected": "session_lost, no dispatch; DELETE 200"})
    ctx.sample({"class": "cross-worker", "minted_on": "A", "presented_on": "B (same key)", "expected": "session_lost"})
    ctx.sample({"class": "cross-identity", "minted_for": "('jwt','alice')", "presented_by": "('jwt','bob')", "expected": "session_lost"})
    ctx.sample({"class": "lifecycle-closed", "expected": "session_lost; DELETE 200 identical to every other 200"})
    ctx.sample({"class": "ttl-elapsed", "open": "ctx.open_session(state, ttl=0) at T", "presented_at": "T + 0.25 s", "expected": "session_lost; DELETE 200"})
    ctx.sample({"class": "genuine", "worker": "U (server_id 'wörker')", "expected": "resumed", "codec_in_source": codec})

    _model_side(ctx, W, codec_term)
    ctx.exhaustive = False
    ctx.assumptions += [
        "XChaCha20-Poly1305 is unforgeable (premise of the theorems; the real cipher is compared with the ideal table on the generated mutations only)",
        "the envelope version byte is not authenticated and stream-state cursor tokens use the same key and AAD: 'what opens was sealed as a session token' is part of the unforgeability premise (a relabelled cursor token is exercised: it is refused)",
        "session ids are fresh within a worker (secrets.token_bytes(12)); workers sharing a key have distinct server ids",
        "base64 (lenient urlsafe decoder) and str.strip are modelled after CPython 3.13 and validated by correspondence; bytes.decode('utf-8','replace') is a parameter (table of the runtime's answers)",
        "time.time and secrets of vgi_rpc.http.server._sticky are replaced by a logical clock in multiples of 1/4 s (exact binary floats; the model counts milliseconds) and a scripted id source; the reaper thread is not started (drain_expired is called directly)",
        "token keys are 32 bytes (crypto.normalize_key is the identity on them)",
    ]


def _model_side(ctx: Any, W: World, codec_term: str) -> None:
    import shutil
    import subprocess

    from vlib.core import scratch_dir

    def lit(b: bytes) -> str:
        return "[" + ";".join(str(x) for x in b) + "]"

    def tlit(s: str) -> str:
        return "[" + ";".join(str(ord(c)) for c in s) + "]"

    defs: list[str] = []
    names: dict[Any, str] = {}

    def named(kind: str, key: Any, term: str, ty: str) -> str:
        k = (kind, key)
        if k not in names:
            names[k] = f"{kind}{len(names)}"
            defs.append(f"Definition {names[k]} : {ty} := {term}.")
        return names[k]

    def reg(snap: tuple[tuple[bytes, int, bytes], ...]) -> str:
        return named("reg", snap, "[" + "; ".join(f"({lit(s)}, (({e})%Z, {lit(pk)}))" for s, e, pk in snap) + "]", "registry")

    for f in W.minted.values():
        named("tk", f["text"], tlit(f["text"]), "list N")
    rows = ";\n".join(f"({lit(k)}, {lit(a)}, {lit(n)}, {lit(body)}, {lit(p)})" for (k, a, n, body), p in W.aead_rows.items())
    trows = ";\n".join(f"({lit(b)}, {tlit(s)})" for b, s in W.text_rows.items())

    cases: list[tuple[str, str]] = []
    for s in W.steps:
        sid_str, key = WORKERS[s["worker"]]
        ni = _norm_ident(s["ident"])
        ident = "None" if ni is None else f"(Some ({lit(ni[0])}, {lit(ni[1])}))"

        def hdr(h: str | None) -> str:
            if h is None:
                return "None"
            return "(Some " + (names[("tk", h)] if ("tk", h) in names else tlit(h)) + ")"

        if s["kind"] == "call":
            st = f"SCall {hdr(s['hdr'])} {'true' if s['closes'] else 'false'}"
        elif s["kind"] == "delete":
            st = f"SDelete {hdr(s['hdr'])}"
        elif s["kind"] == "open":
            st = f"SOpen {'None' if s['ttl'] is None else '(Some (' + str(s['ttl']) + ')%Z)'} {lit(s['sid'])} {lit(s['nonce'])}"
        elif s["kind"] == "reap":
            st = "SReap"
        else:
            st = "SShutdown"
        inp = f"(((({lit(key)}, {tlit(sid_str)}), ({_ms(W.workers[s['worker']].default_ttl)})%Z), {reg(s['before'])}), ({_ms(s['now'])})%Z, {ident}, {st})"
        out = f"({lit(bytes(0)) if not s['obs'] else '[' + ';'.join(str(x) for x in s['obs']) + ']'}, {reg(s['after'])})"
        cases.append((inp, out))

    tables = (
        "From Coq Require Import List NArith ZArith Bool.\nFrom VGI Require Import Bytes Layout M_StickyTok.\nImport ListNotations.\nOpen Scope N_scope.\n"
        + "\n".join(defs)
        + f"\nDefinition T_aead : list aead_row := [\n{rows}].\nDefinition T_text : list (list N * list N) := [\n{trows}].\n"
    )
    tdir = scratch_dir()
    try:
        ctx.log("compiling tables")
        (tdir / "C25Tables.v").write_text(tables)
        pr = subprocess.run(["timeout", "900", "coqc", "-R", str(ctx.bdir), "VGI", "-Q", str(tdir), "C25T", "-w", "-all", "C25Tables.v"], cwd=tdir, capture_output=True, text=True)
        if pr.returncode != 0:
            ctx.obligation("correspondence:M_StickyTok.run_case", "correspondence", False, "tables did not compile: " + (pr.stdout + pr.stderr)[-1500:])
            return
        header = (
            f'Add LoadPath "{tdir}" as C25T.\nFrom Coq Require Import List NArith ZArith Bool.\nFrom VGI Require Import Bytes Layout M_StickyTok{" G_StickyTok" if codec_term == "gen_sid_codec" else ""}.\n'
            "From C25T Require Import C25Tables.\nImport ListNotations.\nOpen Scope N_scope.\n"
        )
        ctx.log("tables compiled; evaluating the model")
        ok, bad, clog = ctx.coq_mismatches(header, f"run_case T_aead T_text {codec_term}", "out_eqb", cases, "case_in", "list N * registry", shard=300)
        ctx.count("model_cases", len(cases))
        ctx.obligation("correspondence:M_StickyTok.run_case", "correspondence", ok and not bad, clog if not ok else f"{len(bad)} of {len(cases)} steps disagree")
        for i in bad[:3]:
            s = W.steps[i]
            shown = ctx.coq_show(header, f"run_case T_aead T_text {codec_term} {cases[i][0]}")
            ctx.violation(
                "model-impl-disagree",
                "implementation and model decide differently",
                {"class": s["cls"], "kind": s["kind"], "worker": s["worker"], "server_id": WORKERS[s["worker"]][0], "identity": repr(s["ident"]), "now": s["now"], "header": s.get("hdr"),
                 "impl_obs": s["obs"], "registry_before": [[a.hex(), b, c.hex()] for a, b, c in s["before"]], "registry_after": [[a.hex(), b, c.hex()] for a, b, c in s["after"]], "model": shown[-400:]},
            )
    finally:
        shutil.rmtree(tdir, ignore_errors=True)
