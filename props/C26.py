"""C26 Sticky sessions are never used concurrently with or after close.

proof         : coq/prop/P_C26.v over model/M_StickySched.v -- a small-step interleaving model of
                vgi_rpc/http/server/_sticky.py (request threads, in-method close_session, DELETE, reaper loop,
                shutdown, logical clock); theorems are over EVERY pool of threads, EVERY TTL and EVERY schedule
                (list of thread ids of arbitrary length).
refuted       : coq/refuted/R_C26.v -- explicit witness schedules (vm_compute) on which the faithful model
                violates "never while a request is dispatching" and "no dispatch after the close hook started";
                each witness is replayed against the real middleware below.
regenerated   : translate/t_c26_shape.py -> gen/G_StickySched.v: (i) the two expiry comparisons of get / drain_expired as
                the `sshape` the model is parameterised over (the theorems hold for every shape; the correspondence
                evaluates the model at the regenerated one, so `<` -> `<=` is followed, not alarmed on); (ii) the
                synchronisation skeleton of get / close / drain_expired / shutdown / _ReaperThread.run /
                process_request / _close_session / process_response / on_delete (which lock is held around which
                registry operation and hook call, release-before-pop in _close_session, no registry call after
                entry.lock.acquire()), proved equal to the modelled skeleton in tie/T_StickySched.v.
correspondence: harness/c26_sched.py -- a deterministic cooperative scheduler (real threads, one baton) around the
                REAL Falcon app (make_wsgi_app(enable_sticky=True)), interposing _sticky.threading / _sticky.time;
                for each (pool, ttl, schedule) the per-step snapshots (clock, entry present, lock owners, parked
                label of every thread), the event trace, the request outcomes and the verdicts of the property
                predicates are compared with the Coq model.  Every schedule is run twice; a difference between the
                two runs is a harness error, never a VIOLATION.

Readings adopted where the statement leaves room (the code is given the benefit of the doubt):
  * a request "dispatches against the session" from the first statement of its service method (Begin) until the
    method returns (End) or until the method itself calls ctx.close_session() (Detach), whichever comes first --
    after close_session() the request is no longer bound to the session (ctx.session is None).  Under this
    reading "at most one request dispatches at a time" HOLDS for the code although _close_session releases the
    entry lock before the method has returned;
  * "never while a request is dispatching" = a close hook must not start while a DIFFERENT request is dispatching
    (an in-method close_session runs inside its own request by definition);
  * "no request dispatches after the close hook has started" = no Begin after the first CloseStart;
  * "exactly once if the session ends" = once the entry has left the registry and no thread is inside a close
    path any more, the hook has started and finished exactly once (and it can always get there: C26_close_completes).
  * scope: ONE session that exists when the scenario starts (opened by a completed request); the request that
    opens a session is not part of the statement's list of actors and is not modelled.
"""
from __future__ import annotations

import itertools
import json
from typing import Any

META = {
    "id": "C26",
    "technique": "Coq proof over a small-step interleaving model (all pools, all schedules) + refuted-lemma witnesses + "
    "regenerated guards/structure tie + step-by-step correspondence with the real middleware under a deterministic scheduler",
    "level_text": "Coq theorems for every pool of request / closing-request / DELETE / reaper / shutdown threads, every TTL and "
    "every schedule: dispatches on the session are mutually exclusive; the close hook starts at most once; once the "
    "session has left the registry the hook runs exactly once (and can always complete within two steps); a DELETE "
    "never closes during a dispatch; every dispatching request looked the session up while it was registered. "
    "'never while dispatching' and 'no dispatch after close' are REFUTED for the faithful model (five witness "
    "schedules), and each witness reproduces on the real code.",
    "level_note": "Trusted: Coq kernel (vm_compute for the witnesses only), the hand model of _sticky.py (tied by the "
    "regenerated shape and by step-by-step correspondence on seeded / preemption-bounded / exhaustive-to-depth "
    "schedules), atomicity of code between two scheduling points, one session, integral logical time.",
    "design_ref": "§5 C26, Appendix B",
}

HEADER = "From Coq Require Import List NArith Bool.\nFrom VGI Require Import M_StickySched G_StickySched Corr.\nImport ListNotations.\n"

# witness schedules of coq/refuted/R_C26.v  (name, pool, ttl, schedule, expected finding key)
WITNESSES = [
    ("window_delete", [0, 2], 100, [1, 1, 2, 2, 2, 2, 2, 2, 1, 1], "dispatch-after-close:lookup-to-acquire-window-not-revalidated"),
    ("reaper", [0, 3], 1, [1, 1, 1, 1, 0, 0, 2, 2, 2], "close-during-dispatch:reaper-sweep-without-entry-lock"),
    ("shutdown", [0, 4], 100, [1, 1, 1, 1, 2, 2], "close-during-dispatch:shutdown-without-entry-lock"),
    ("get_expiry", [0, 0], 1, [1, 1, 1, 1, 0, 0, 2, 2, 2], "close-during-dispatch:get-expiry-eviction-without-entry-lock"),
    ("in_method_close", [1, 0], 100, [1, 1, 1, 1, 2, 2, 1, 2, 2, 1, 1], "close-during-dispatch:in-method-close-releases-entry-lock-before-pop"),
]

EXPECTED_KEYS = {w[4] for w in WITNESSES}

POOLS = [
    [0, 0], [0, 1], [0, 2], [0, 3], [0, 4], [1, 1], [1, 2], [1, 3], [1, 4], [2, 2], [2, 3], [2, 4],
    [0, 0, 2], [0, 1, 2], [0, 0, 3], [0, 1, 3], [0, 2, 3], [0, 2, 4], [1, 2, 3], [0, 0, 1], [1, 1, 0],
    [0, 0, 2, 3], [0, 1, 2, 3], [0, 0, 1, 2, 3], [0, 1, 2, 3, 4], [0, 0, 0, 2, 3], [0, 2, 3, 4], [1, 0, 3, 4],
]

# number of own steps a thread of each kind needs when nothing blocks it (reaper: one full sweep with eviction)
PATH_LEN = {0: 5, 1: 9, 2: 6, 3: 4, 4: 3}


def translate(ctx: Any) -> None:
    from translate import t_c26_shape

    src = ctx.repo / "vgi_rpc" / "http" / "server" / "_sticky.py"
    ctx.gen("G_StickySched", lambda: t_c26_shape.coq_text(src))


# ---- schedule generators ---------------------------------------------------------------------------------


def random_schedule(rng: Any, pool: list[int], ttl: int) -> list[int]:
    n = len(pool)
    length = rng.randrange(4, 14 + 6 * n)
    ids = list(range(1, n + 1))
    weights = [3 if k in (0, 1, 2) else 2 for k in pool]
    sch: list[int] = []
    ticks_left = ttl + 2 if ttl <= 3 else 0
    while len(sch) < length:
        r = rng.random()
        if ticks_left and r < 0.18:
            sch.append(0)
            ticks_left -= 1
        elif r < 0.22:
            sch.append(rng.choice([0, n + 1, n + 3]))  # clock / ids naming no thread (stutter)
        else:
            t = rng.choices(ids, weights)[0]
            sch.extend([t] * rng.choice([1, 1, 1, 2, 3, 4]))  # short bursts: few preemptions, deep runs
    return sch[:length]


def preemption_bounded(pool: list[int], ttl: int, bound: int) -> list[list[int]]:
    """All schedules in which the actors (threads; the clock crossing the TTL counts as one actor) run one after
    the other, except for at most ``bound`` preemptions at arbitrary points."""
    actors: list[tuple[int, int]] = [(i + 1, PATH_LEN[k]) for i, k in enumerate(pool)]
    if ttl <= 3:
        actors.append((0, ttl + 1))
    out: list[list[int]] = []

    def rec(remaining: dict[int, int], cur: int | None, left: int, acc: list[int]) -> None:
        if all(v == 0 for v in remaining.values()):
            out.append(list(acc))
            return
        if cur is not None and remaining[cur] > 0:
            # continue the current actor (free) or preempt it (costs one)
            remaining[cur] -= 1
            acc.append(cur)
            rec(remaining, cur, left, acc)
            acc.pop()
            remaining[cur] += 1
            if left > 0:
                for a, v in remaining.items():
                    if a != cur and v > 0:
                        remaining[a] -= 1
                        acc.append(a)
                        rec(remaining, a, left - 1, acc)
                        acc.pop()
                        remaining[a] += 1
        else:
            for a, v in remaining.items():
                if v > 0:
                    remaining[a] -= 1
                    acc.append(a)
                    rec(remaining, a, left, acc)
                    acc.pop()
                    remaining[a] += 1

    rec({a: v for a, v in actors}, None, bound, [])
    return out


# ---- the oracle on the implementation ----------------------------------------------------------------------


def classify(pool: list[int], res: Any) -> list[tuple[str, str, dict[str, Any]]]:
    """Evaluate the statement on what the REAL code did; return (key, what, extra) per violated clause."""
    from harness.c26_sched import EVENTS, KIND_NAMES, LABEL_CODE, judge

    j = judge(res.events)
    out: list[tuple[str, str, dict[str, Any]]] = []
    n = len(pool)

    def step_of_event(idx: int) -> int:
        for k, s in enumerate(res.snaps):
            if s[4] > idx:
                return k
        return len(res.snaps) - 1

    if j["mutex"] is not None:
        out.append(("mutex:two-requests-dispatch-at-once", "a request began dispatching while another was dispatching on the session", j["mutex"]))
    if j["close_twice"] is not None:
        out.append(("close-hook-ran-twice", "the close hook started a second time", j["close_twice"]))
    last = res.snaps[-1] if res.snaps else None
    if last is not None:
        in_close = any(lbl in (LABEL_CODE["hook1"], LABEL_CODE["hook2"]) for lbl in last[5:])
        if last[1] == 0 and not in_close and (j["close_starts"] != 1 or j["close_ends"] != 1):
            out.append(("close-hook-not-run-exactly-once-after-session-ended", f"session left the registry, nobody is closing, hook starts={j['close_starts']} ends={j['close_ends']}", {}))
    if j["close_during"] is not None:
        d = j["close_during"]
        closer = d["closer"]
        k = step_of_event(d["at"])
        before = res.snaps[k - 1] if k > 0 else [0, 1, 0, 0, 0]
        kind = pool[closer] if closer < n else -1
        if before[2] == closer + 1:
            path = "get-expiry-eviction-without-entry-lock"
        elif kind == 3:
            path = "reaper-sweep-without-entry-lock"
        elif kind == 4:
            path = "shutdown-without-entry-lock"
        elif kind == 1:
            path = "in-method-close-releases-entry-lock-before-pop"
        elif kind == 2:
            path = "delete-path"
        else:
            path = f"closer-kind-{kind}"
        out.append((f"close-during-dispatch:{path}", f"close hook started by thread {closer} ({KIND_NAMES.get(kind, '?')}) while request thread(s) {d['dispatching']} were dispatching", d))
    if j["dispatch_after"] is not None:
        d = j["dispatch_after"]
        t = d["tid"]
        hit = next((k for k in range(1, len(res.snaps)) if res.snaps[k - 1][5 + t] == LABEL_CODE["reglock"] and res.snaps[k][5 + t] in (LABEL_CODE["elock"], LABEL_CODE["mklock"])), None)
        if hit is None and res.snaps and res.snaps[0][5 + t] == LABEL_CODE["elock"]:
            hit = 0
        gone = next((k for k in range(len(res.snaps)) if res.snaps[k][1] == 0), None)
        if hit is not None and gone is not None and hit < gone:
            key = "dispatch-after-close:lookup-to-acquire-window-not-revalidated"
        else:
            key = "dispatch-after-close:lookup-after-removal"
        out.append((key, f"request thread {t} began dispatching after the close hook had started (lookup at step {hit}, entry removed at step {gone})", d))
    _ = EVENTS
    return out


def _case_terms(pool: list[int], ttl: int, res: Any) -> tuple[str, str]:
    from harness.c26_sched import judge
    from vlib.coqterm import cN

    j = judge(res.events)
    inp = "([" + ";".join(cN(k) for k in pool) + f"], {cN(ttl)}, [" + ";".join(f"{x}%nat" for x in res.schedule) + "])"
    snaps = "[" + ";".join("[" + ";".join(cN(x) for x in s) + "]" for s in res.snaps) + "]"
    evs = "[" + ";".join(f"({cN(e)},{cN(t)})" for e, t in res.events) + "]"
    outs = "[" + ";".join(cN(o) for o in res.outcomes) + "]"
    verd = "[" + ";".join(
        cN(x) for x in (
            int(j["mutex"] is not None), int(j["close_twice"] is not None), int(j["close_during"] is not None),
            int(j["dispatch_after"] is not None), j["close_starts"], j["close_ends"],
        )
    ) + "]"
    return inp, f"({snaps}, {evs}, {outs}, {verd})"


def run(ctx: Any) -> None:
    from harness import c26_sched as H

    translate(ctx)
    ctx.prove(
        ["prop/P_C26.vo", "refuted/R_C26.vo", "tie/T_StickySched.vo"],
        {
            "P_C26": [
                "C26_mutex_dispatch", "C26_close_at_most_once", "C26_close_exactly_once_if_ended", "C26_close_completes",
                "C26_no_close_during_dispatch_partial", "C26_no_dispatch_after_close_partial",
            ],
            "R_C26": [
                "C26_no_dispatch_after_close_refuted", "C26_no_close_during_dispatch_refuted_reaper",
                "C26_no_close_during_dispatch_refuted_shutdown", "C26_no_close_during_dispatch_refuted_get_expiry",
                "C26_no_close_during_dispatch_refuted_in_method_close",
            ],
            "T_StickySched": ["sticky_shape_tie", "C26_source_mutex_dispatch", "C26_source_close_at_most_once"],
        },
    )

    quick = ctx.tier == "quick"
    ctx.rule = (
        "case = (pool of thread kinds {request, request+close_session, DELETE, reaper, shutdown}, session TTL, schedule); "
        "schedules: the 5 refuted-lemma witnesses; all schedules with <= k preemptions (k=1 quick, k=2 thorough; the clock "
        "crossing the TTL is an actor); lockstep schedules (every thread advances in turn, by 1 or 2 steps) for 28 pools; seeded random schedules with short bursts; thorough: all schedules up to depth 5-7 over "
        "(threads + clock) for 2- and 3-thread pools; k=2 lists are sampled (120 per pool).  Every schedule is followed by a recorded drain suffix that lets "
        "every non-reaper thread finish.  distinct by (pool, ttl, executed schedule); non-trivial = at least two threads "
        "took a step and an event was recorded"
    )
    cases: list[tuple[list[int], int, list[int], str]] = []
    for name, pool, ttl, sch, _key in WITNESSES:
        cases.append((pool, ttl, sch, f"witness:{name}"))
    # preemption-bounded
    pb_pools = [([0, 0], 100), ([0, 2], 100), ([0, 3], 1), ([0, 4], 100), ([0, 0], 1), ([1, 0], 100), ([1, 2], 100), ([2, 2], 100), ([1, 1], 100), ([2, 3], 0)]
    for pool, ttl in pb_pools:
        all_pb = preemption_bounded(pool, ttl, 1 if quick else 2)
        if quick and len(all_pb) > 22:
            all_pb = ctx.rng.sample(all_pb, 22)
        elif len(all_pb) > 120:
            all_pb = ctx.rng.sample(all_pb, 120)
        cases += [(pool, ttl, s, "preemption-bounded") for s in all_pb]
    if not quick:
        for pool, ttl in [([0, 0, 2], 100), ([0, 1, 2], 100), ([0, 2, 3], 1), ([0, 1, 3], 1), ([0, 2, 4], 100)]:
            all_pb = preemption_bounded(pool, ttl, 2)
            cases += [(pool, ttl, s, "preemption-bounded") for s in ctx.rng.sample(all_pb, min(len(all_pb), 100))]
        # exhaustive to a depth
        for pool, ttl, depth in [([0, 2], 100, 7), ([1, 0], 100, 7), ([0, 3], 0, 6), ([0, 0], 0, 6), ([0, 4], 100, 6), ([0, 1, 2], 100, 5), ([0, 2, 3], 0, 5)]:
            ids = list(range(0 if ttl <= 3 else 1, len(pool) + 1))
            for tup in itertools.product(ids, repeat=depth):
                cases.append((pool, ttl, list(tup), f"exhaustive-depth-{depth}"))
    # lockstep: all threads advance in turn (hits check-then-act windows that need two threads at the same point)
    for pool in POOLS:
        n = len(pool)
        for ttl in ([100] if quick else [1, 100]):
            cases.append((pool, ttl, [i + 1 for _ in range(6) for i in range(n)], "lockstep"))
            cases.append((pool, ttl, [i + 1 for _ in range(3) for i in range(n) for _ in range(2)], "lockstep"))
    # seeded random
    for _ in range(70 if quick else 800):
        pool = ctx.rng.choice(POOLS)
        ttl = ctx.rng.choice([0, 1, 1, 2, 100, 100])
        cases.append((pool, ttl, random_schedule(ctx.rng, pool, ttl), "random"))
    ctx.exhaustive = False

    coq_cases: list[tuple[str, str]] = []
    meta: list[tuple[list[int], int, Any, str]] = []
    harness_errors: list[str] = []
    nondet: list[str] = []
    found: dict[str, int] = {}
    witness_hits: dict[str, list[str]] = {}
    for pool, ttl, sch, origin in cases:
        try:
            r1 = H.run_schedule(pool, ttl, sch)
            r2 = H.run_schedule(pool, ttl, sch)
        except H.HarnessError as e:
            harness_errors.append(f"{pool} ttl={ttl} {sch}: {e}")
            continue
        ctx.count("impl_runs", 2)
        if r1.key() != r2.key():
            nondet.append(json.dumps({"pool": pool, "ttl": ttl, "schedule": sch}))
            continue
        movers = {x for x in r1.schedule[: r1.given] if x > 0}
        ctx.case([pool, ttl, r1.schedule], nontrivial=len(movers) >= 2 and bool(r1.events))
        ctx.tally("origin", origin.split(":")[0])
        ctx.tally("pool_size", len(pool))
        ctx.tally("ttl", ttl)
        for o, k in zip(r1.outcomes, pool):
            if k in (0, 1, 2) and o not in (1, 2):
                harness_errors.append(f"{pool} ttl={ttl} {sch}: unexpected outcome {o} {r1.details}")
        vs = classify(pool, r1)
        for key, what, extra in vs:
            found[key] = found.get(key, 0) + 1
            if origin.startswith("witness:"):
                witness_hits.setdefault(origin, []).append(key)
            ctx.violation(
                key, what,
                {"pool": [H.KIND_NAMES[k] for k in pool], "pool_codes": pool, "ttl": ttl, "schedule": r1.schedule, "given_prefix": r1.given,
                 "events": [[H.EVENTS[e], t] for e, t in r1.events], "outcomes": r1.details, "origin": origin, **{"detail": extra}},
            )
        if len(ctx.samples) < 6 and (origin.startswith("witness") or vs):
            ctx.sample({"pool": pool, "ttl": ttl, "schedule": r1.schedule, "events": [[H.EVENTS[e], t] for e, t in r1.events], "violated": [v[0] for v in vs]})
        coq_cases.append(_case_terms(pool, ttl, r1))
        meta.append((pool, ttl, r1, origin))

    ctx.obligation("harness:deterministic", "harness", not nondet, f"{len(nondet)} schedules gave different traces on two runs, e.g. {nondet[:2]}")
    ctx.obligation("harness:drove-every-schedule", "harness", not harness_errors, "; ".join(harness_errors[:3]))
    # every refuted-lemma witness must reproduce on the real code with the expected class
    for name, _pool, _ttl, _sch, key in WITNESSES:
        got = witness_hits.get(f"witness:{name}", [])
        ctx.notes.append(f"witness {name}: real code -> {got or 'no violation'} (model: {key})")
    ctx.notes.append("violation classes seen on the real code: " + json.dumps(found, sort_keys=True))

    ok, bad, clog = ctx.coq_mismatches(HEADER, "run_case gen_sshape", "case_eqb", coq_cases, "list N * N * list nat", "list (list N) * list (N * N) * list N * list N", shard=150)
    ctx.count("model_cases", len(coq_cases))
    ctx.obligation("correspondence:M_StickySched.run_case", "correspondence", ok and not bad, clog if not ok else f"{len(bad)} of {len(coq_cases)} schedules disagree")
    for i in bad[:3]:
        pool, ttl, r, origin = meta[i]
        shown = ctx.coq_show(HEADER, f"run_case gen_sshape {coq_cases[i][0]}")
        ctx.violation(
            "model-impl-disagree", "real middleware and model behave differently on a schedule",
            {"pool": pool, "ttl": ttl, "schedule": r.schedule, "origin": origin, "impl_snaps": r.snaps, "impl_events": r.events, "impl_outcomes": r.outcomes, "model": shown[-1500:]},
        )
    ctx.assumptions += [
        "code between two scheduling points (clock read, registry-lock acquire, entry-lock acquire, Begin/End/Detach, CloseStart/CloseEnd) is atomic w.r.t. the other threads; lock releases are not scheduling points",
        "one session, already open when the scenario starts; the opening request (which does not hold the entry lock) is outside the statement's actors and is not modelled",
        "logical integral time; `expires_at < now` on floats equals the comparison on naturals",
        "a request dispatches against the session from Begin until End or its own close_session() call (reading adopted in favour of the code)",
        "_sticky.threading / _sticky.time are rebound for the harness; the reaper loop body is the real _ReaperThread.run driven as a scenario thread, its Event.wait returns immediately",
    ]


def replay(ctx: Any, data: dict[str, Any]) -> None:
    """Re-run exactly the recorded (pool, ttl, schedule) against the real middleware and judge it."""
    from harness import c26_sched as H

    rp = data.get("replay", data)
    pool, ttl, sch = rp["pool_codes"], rp["ttl"], rp["schedule"]
    r = H.run_schedule(pool, ttl, sch, drain=False)
    print("events:", [[H.EVENTS[e], t] for e, t in r.events], flush=True)
    for s in r.snaps:
        print("  now/present/reglock/elock/#events", s[:5], [H.LABELS[x] if x < len(H.LABELS) else x for x in s[5:]], flush=True)
    ctx.case([pool, ttl, sch])
    for key, what, extra in classify(pool, r):
        ctx.violation(key, what, {"pool_codes": pool, "ttl": ttl, "schedule": sch, "events": [[H.EVENTS[e], t] for e, t in r.events], "detail": extra})
