"""C04 A socket connection stays usable after any call outcome.

proof         : coq/prop/P_C04.v over model/M_WireConn.v (explicit connection state: client->server queue,
                server->client queue, server control point, client control point) on top of M_Wire; lemmas in
                proof/L_WireConn.v.  ``conn_call`` = one call on a clean connection (observation + connection afterwards);
                its observation is proved equal to M_Wire.run_pipe for EVERY program / script, so C01's refinement
                (run_pipe = reference semantics) carries over to every position of a history.
regenerated   : translate/t_c04_guards.py reads the guards that decide the two repairable classes out of the source
                (_serve_stream's init try, _read_unary_response's handlers) -> gen/G_WireConn.v ``gen_variant``;
                tie/T_WireConn.v proves gen_variant = v_repaired and restates the theorems over it.  The ordered
                except-clauses of serve / serve_one / _serve_unary / _serve_stream are tied by tie/T_Wire.v (C01's).
refuted       : coq/refuted/R_C04.v -- behaviours of the code (old variant and current) that contradict the statement;
                each witness is replayed on the real code here (WITNESSES).
correspondence: the REAL RpcServer / client over real pipes, unix and tcp sockets (subprocess in thorough), driven by
                harness/c04_conn.py: (A) single calls on a fresh connection -- client trace AND connection state
                afterwards (unread server->client messages by kind, where the serve thread stands, session left open,
                client->server bytes unread) against ``call_view gen_variant``; (B) histories of 1-6 calls with a
                failure at a generated position, every later call a probe, against ``run_seq gen_variant``.
oracle        : the property itself on the implementation, independent of the model: on a shared connection every call
                must observe exactly what the same call observes on a FRESH connection, and no call may block.

Readings adopted
* "its own correct response" = the observation of the same call on a fresh connection (by C01 = the reference semantics).
* A call has ENDED when the client iterated a stream to exhaustion, closed or cancelled it, or an exception left the
  client API (after an exception out of tick()/exchange() the driver closes the session, as ``with session:`` does).
  A session that is neither exhausted nor closed ("abandon") is not an ended call: a desynchronisation that follows an
  abandoned OPEN session is tallied, not reported (pool.py treats such a transport as tainted, too).  Abandoning a
  session that already ended by itself (exhausted / error) counts as ended.
* An in-process serve thread whose ``serve()`` ended leaves the transport open (as vgi_rpc.rpc.serve_pipe does); the
  client then blocks.  Socket servers close the connection instead; then the client gets a TransportError -- equally
  not its response.
* Error MESSAGES of rejected requests (unknown method, parameter, protocol version) are not compared, only the type.
"""
from __future__ import annotations

import copy
import json
import tempfile
import time
from typing import Any

META = {
    "id": "C04",
    "technique": "Coq proof over an explicit connection-state model (queues + control points) refining M_Wire, induction over call lists; guards regenerated from source; correspondence of traces AND connection state on real pipes/sockets",
    "level_text": "Coq theorems for all programs, scripts and call lists (unbounded): after every well-behaved call the "
    "connection is clean; on a clean connection every call observes exactly M_Wire.run_pipe (hence, by C01, the reference "
    "semantics), so any history of such calls is the concatenation of the per-call observations and the next call -- "
    "whatever it is -- receives its own response; no such call blocks.  Failure kinds and positions are constructors of "
    "program/script, so every failure at every position is inside the quantifier.  The classes where the faithful model "
    "of the code is NOT clean afterwards are refuted with witnesses replayed on the real code.",
    "level_note": "partial: the theorems exclude (visible in `wellbehaved`) raising on_log callbacks inside stream calls, "
    "EXCEPTION-level client logs in stream calls, init failures / rejections on stream methods WITHOUT header, and -- on "
    "the unrepaired source -- uncaught implementation faults and raising callbacks on unary calls; each excluded class "
    "has a refuted lemma and a violation key.  Below the model: Arrow IPC byte framing, kernel buffering; what a call on "
    "an already desynchronised connection reads (`Desync` = unspecified).",
    "design_ref": "§5 C04",
}

LEVELS = ["ERROR", "WARN", "INFO", "DEBUG", "TRACE"]
EXCS = ["ValueError", "RuntimeError", "KeyError", "InterpUserError", "InterpKindError"]
# exception classes the serve loop / the client treat specially when they meet them ON THE TRANSPORT; an implementation
# whose own backend I/O fails raises exactly these (harness/c04_conn.py adds them to the interpreter's table)
SPECIAL_EXCS = ["BrokenPipeError", "ConnectionResetError", "ConnectionAbortedError", "OSError", "TimeoutError", "EOFError", "ArrowInvalid",
                "StopIteration", "InterpRpcError"]
KINDS = ("pipe", "unix", "tcp")

# failure labels -> finding keys (specific classes; anything else is reported under its own generic key)
KEY_BAD_RETURN = "uncaught-non-stream-return-ends-serve-loop"
KEY_MISSING_HEADER = "uncaught-missing-declared-header-ends-serve-loop"
KEY_CB_UNARY = "raising-on_log-leaves-unary-response-undrained"
KEY_CB_STREAM = "raising-on_log-inside-stream-call-desyncs-connection"
KEY_HEADERLESS = "headerless-stream-init-failure-desyncs-connection"
KEY_EXC_LOG = "exception-level-client-log-in-stream-call-desyncs-connection"


# --------------------------------------------------------------------------- generators
def g_log(rng: Any, lvl: str | None = None) -> list[Any]:
    return [lvl or rng.choice(LEVELS), rng.choice(["m", "héllo", "log", "x" * 9]) + str(rng.randrange(50)), ({} if rng.random() < 0.7 else {"k": rng.choice(["v", "7"])})]


def g_logs(rng: Any, lo: int = 0) -> list[Any]:
    return [g_log(rng) for _ in range(rng.choice([lo, lo, 1, 1, 2, 3]))]


def g_exc(rng: Any) -> list[str]:
    return [rng.choice(EXCS if rng.random() < 0.6 else SPECIAL_EXCS), rng.choice(["boom", "", "bad ünicode", "k"])]


def special_exc_histories() -> list[list[dict[str, Any]]]:
    """Every special exception class x every site an implementation can raise at (unary method, stream init, process() at
    the first / a middle / the last batch, the on_cancel hook) x producer / exchange, each followed by a plain stream call
    (the trailing probe is appended by the caller).  Deterministic: part of every run."""
    out = []
    ok = lambda t: {"logs": [["INFO", "s" + str(t), {}]], "emit": {"rows": 1, "meta": None}, "finish": False, "raise": None}  # noqa: E731
    follow = mk_call("producer", {"init_logs": [], "init": "ok", "header": 3, "steps": [ok(0)]}, True, 0, "stop", label="plain")
    for cls in SPECIAL_EXCS:
        e = [cls, "backend " + cls]
        out.append([mk_call("unary", {"logs": [["INFO", "u", {}]], "result": {"raise": e}}, False, 0, "", label=f"raises:{cls}@unary"), dict(follow)])
        for kind in ("producer", "exchange"):
            base = {"init_logs": [["INFO", "i", {}]], "init": "ok", "header": 5, "steps": [ok(0), ok(1), ok(2)]}
            out.append([mk_call(kind, {**base, "init": {"raise": e}}, True, 1, "close", label=f"raises:{cls}@init"), dict(follow)])
            for pos, name in ((0, "first"), (1, "middle"), (2, "last")):
                steps = [ok(0), ok(1), ok(2)]
                steps[pos] = {**ok(pos), "raise": e}
                after = "stop" if kind == "producer" else "close"
                out.append([mk_call(kind, {**base, "steps": steps}, pos % 2 == 0, 3, after, label=f"raises:{cls}@process-{name}"), dict(follow)])
            out.append([mk_call(kind, {**base, "cancel_raise": e}, False, 1, "cancel", label=f"raises:{cls}@on_cancel"), dict(follow)])
    return out


def g_step(rng: Any, kind: str = "emit", logs: list[Any] | None = None) -> dict[str, Any]:
    st: dict[str, Any] = {"logs": g_logs(rng) if logs is None else logs, "emit": {"rows": rng.choice([0, 1, 1, 3, 40]), "meta": None if rng.random() < 0.7 else {"k": "v"}},
                          "finish": False, "raise": None}
    if kind == "raise":
        st["raise"] = g_exc(rng)
        if rng.random() < 0.5:
            st["emit"] = None
    elif kind == "finish":
        st["emit"], st["finish"] = None, True
    elif kind == "emit_finish":
        st["finish"] = True
    elif kind == "logonly":
        st["emit"] = None
    return st


def g_stream_prog(rng: Any, n: int | None = None) -> dict[str, Any]:
    n = rng.choice([0, 1, 2, 3, 4]) if n is None else n
    return {"init_logs": g_logs(rng), "init": "ok", "header": rng.randrange(-3, 90), "steps": [g_step(rng) for _ in range(n)]}


def g_after(rng: Any, producer: bool, abandon: bool = False) -> str:
    c = ["close", "cancel"] + (["stop", "stop"] if producer else []) + (["abandon"] if abandon else [])
    return rng.choice(c)


def mk_call(kind: str, prog: dict[str, Any], h: bool, k: int, after: str, mode: str = "record", via: str = "main", label: str = "plain") -> dict[str, Any]:
    return {"via": via, "kind": kind, "prog": prog, "h": h, "k": k, "after": after, "mode": mode, "label": label}


def g_plain(rng: Any) -> dict[str, Any]:
    """A call that must leave the connection usable (also serves as a probe)."""
    r = rng.random()
    if r < 0.35:
        res = {"ok": rng.randrange(-5, 10**6)} if rng.random() < 0.8 else {"raise": g_exc(rng)}
        return mk_call("unary", {"logs": g_logs(rng), "result": res}, False, 0, "", label="plain")
    producer = r < 0.7
    prog = g_stream_prog(rng)
    n = len(prog["steps"])
    if rng.random() < 0.3 and n:
        i = rng.randrange(n)
        prog["steps"][i] = g_step(rng, rng.choice(["raise", "finish", "emit_finish", "logonly"]) if producer else rng.choice(["raise", "logonly", "finish"]))
    return mk_call("producer" if producer else "exchange", prog, rng.random() < 0.5, rng.choice([0, 1, 2, n, n + 1]), g_after(rng, producer), label="plain")


def g_probe(rng: Any, uniq: int) -> dict[str, Any]:
    return mk_call("unary", {"logs": [], "result": {"ok": 7_000_000 + uniq}}, False, 0, "", label="probe")


FAULTS = ["method_error", "init_error", "init_error_h", "unknown_method", "version_rejection", "param_rejection", "midstream_error",
          "early_exit", "cb_raise_unary", "cb_raise_stream", "bad_return", "missing_header", "raise_after_log", "exc_log", "abandon"]


def g_fault(rng: Any, label: str) -> dict[str, Any]:
    producer = rng.random() < 0.55
    kind = "producer" if producer else "exchange"
    h = rng.random() < 0.5
    if label == "method_error":
        return mk_call("unary", {"logs": g_logs(rng), "result": {"raise": g_exc(rng)}}, False, 0, "", label=label)
    if label in ("init_error", "init_error_h"):
        prog = g_stream_prog(rng)
        prog["init"] = {"raise": g_exc(rng)}
        return mk_call(kind, prog, label == "init_error_h", rng.choice([0, 0, 1, 2]), g_after(rng, producer), label=label)
    if label in ("unknown_method", "version_rejection", "param_rejection"):
        via = {"unknown_method": "unknown", "version_rejection": "badversion", "param_rejection": "badparam"}[label]
        if rng.random() < 0.3:
            return mk_call("unary", {"logs": [], "result": {"ok": 1}}, False, 0, "", via=via, label=label)
        return mk_call(kind, g_stream_prog(rng, 2), h, rng.choice([0, 1, 2]), g_after(rng, producer), via=via, label=label)
    if label == "midstream_error":
        n = rng.choice([1, 2, 3, 4])
        prog = g_stream_prog(rng, n)
        pos = rng.choice(["first", "middle", "last"])
        prog["steps"][{"first": 0, "middle": n // 2, "last": n - 1}[pos]] = g_step(rng, "raise")
        return mk_call(kind, prog, h, rng.choice([n, n + 1, n - 1 if n > 1 else n]), g_after(rng, producer), label=label)
    if label == "early_exit":
        n = rng.choice([1, 2, 3, 4])
        return mk_call(kind, g_stream_prog(rng, n), h, rng.randrange(0, n + 2), rng.choice(["close", "cancel"]), label=label)
    if label == "cb_raise_unary":
        return mk_call("unary", {"logs": g_logs(rng, 1) or [g_log(rng)], "result": {"ok": rng.randrange(100)} if rng.random() < 0.7 else {"raise": g_exc(rng)}},
                       False, 0, "", mode="raise", label=label)
    if label == "cb_raise_stream":
        n = rng.choice([1, 2, 3])
        prog = g_stream_prog(rng, n)
        where = rng.choice(["init", "step", "step"])
        if where == "init":
            prog["init_logs"] = [g_log(rng)] + prog["init_logs"]
        else:
            prog["steps"][rng.randrange(n)]["logs"] = [g_log(rng)]
        return mk_call(kind, prog, h, rng.choice([0, 1, n, n + 1]), g_after(rng, producer), mode="raise", label=label)
    if label == "bad_return":
        prog = g_stream_prog(rng, 2)
        prog["init"] = "bad_return"
        return mk_call(kind, prog, h, rng.choice([0, 1, 2]), g_after(rng, producer), label=label)
    if label == "missing_header":
        prog = g_stream_prog(rng, 2)
        prog["header"] = None
        return mk_call(kind, prog, True, rng.choice([0, 1, 2]), g_after(rng, producer), label=label)
    if label == "raise_after_log":
        n = rng.choice([1, 2, 3])
        prog = g_stream_prog(rng, n)
        i = rng.randrange(n)
        prog["steps"][i] = g_step(rng, "raise", logs=[g_log(rng), g_log(rng)])
        return mk_call(kind, prog, h, n + 1, g_after(rng, producer), label=label)
    if label == "exc_log":
        if rng.random() < 0.25:
            return mk_call("unary", {"logs": g_logs(rng) + [g_log(rng, "EXCEPTION")] + g_logs(rng), "result": {"ok": 3}}, False, 0, "", label=label)
        n = rng.choice([1, 2, 3])
        prog = g_stream_prog(rng, n)
        where = rng.choice(["init", "step", "step2"])
        if where == "init":
            prog["init_logs"] = prog["init_logs"] + [g_log(rng, "EXCEPTION")]
        else:
            lg = [g_log(rng, "EXCEPTION")] + ([g_log(rng, "EXCEPTION")] if where == "step2" else []) + g_logs(rng)
            prog["steps"][rng.randrange(n)]["logs"] = lg
        return mk_call(kind, prog, h, rng.choice([0, 1, n, n + 1]), g_after(rng, producer), label=label)
    if label == "abandon":
        n = rng.choice([1, 2, 3])
        return mk_call(kind, g_stream_prog(rng, n), h, rng.randrange(0, n + 2), "abandon", label=label)
    raise ValueError(label)


def arm_calls(rng: Any, thorough: bool) -> list[dict[str, Any]]:
    """Single calls that reach every arm of conn_call: the product init x header x kind x k x after x callback x
    EXCEPTION-log position over one small program (all of it in thorough, a seeded sample in quick)."""
    import itertools

    out = []
    for init, h, kind, k, after, mode, exc in itertools.product(
            ("ok", "raise", "bad_return", "missing_header"), (False, True), ("producer", "exchange"), (0, 1, 3),
            ("stop", "close", "cancel", "abandon"), ("record", "raise"), ("none", "init", "step", "step_twice")):
        if (kind == "exchange" and after == "stop") or (init == "missing_header" and not h):
            continue
        st = lambda logs: {"logs": logs, "emit": {"rows": 1, "meta": None}, "finish": False, "raise": None}  # noqa: E731
        x = ["EXCEPTION", "x", {}]
        prog = {"init_logs": [["INFO", "i", {}]] + ([x] if exc == "init" else []), "init": "ok", "header": 5,
                "steps": [st([["INFO", "a", {}]] + ([x] if exc == "step" else []) + ([x, x] if exc == "step_twice" else []) + [["WARN", "b", {}]]), st([])]
                + ([{"logs": [], "emit": None, "finish": False, "raise": ["ValueError", "boom"]}] if kind == "producer" else [])}
        if init == "raise":
            prog["init"] = {"raise": ["ValueError", "boom"]}
        elif init == "bad_return":
            prog["init"] = "bad_return"
        elif init == "missing_header":
            prog["header"] = None
        out.append(mk_call(kind, prog, h, k, after, mode=mode, label="arm"))
    for logs in ([], [["INFO", "l", {}]], [["EXCEPTION", "x", {}], ["INFO", "l", {}]], [["INFO", "l", {}], ["EXCEPTION", "x", {}]]):
        for res in ({"ok": 5}, {"raise": ["KeyError", "k"]}):
            for mode in ("record", "raise"):
                out.append(mk_call("unary", {"logs": logs, "result": res}, False, 0, "", mode=mode, label="arm"))
    if thorough:
        return out
    fixed = out[-16:]
    return rng.sample(out[:-16], 140) + fixed


# --------------------------------------------------------------------------- scripts, Coq rendering
def script_of(c: dict[str, Any], pid: int) -> list[Any]:
    if c["kind"] == "unary":
        return ["unary", pid]
    m = c["kind"] + ("_h" if c["h"] else "")
    return ["iterate" if c["kind"] == "producer" else "exchange", m, pid, c["k"], c["after"]]


def model_prog(c: dict[str, Any]) -> str:
    """The program the MODEL is given: a rejected request is answered exactly like an init error / a raising method."""
    from harness.c04_conn import REJECT_TYPE
    from props.C01 import _s, c_prog

    if c["via"] == "main":
        return c_prog(c["kind"], c["prog"])
    exn = f"{{| cls := {_s(REJECT_TYPE[c['via']])}; emsg := []; kind := None |}}"
    if c["kind"] == "unary":
        return f"(PUnary {{| ulogs := []; ures_of := URaise {exn} |}})"
    return f"(PStream {{| ilogs := []; ires := InitRaise {exn}; hdr := Some 0%Z; steps := [] |}})"


def model_call(c: dict[str, Any]) -> str:
    from props.C01 import c_script

    return f"({model_prog(c)}, {c_script(script_of(c, 0), c['mode'])})"


def norm_trace(c: dict[str, Any], tr: list[list[Any]]) -> list[list[Any]]:
    if c["via"] == "main":
        return tr
    from harness.c04_conn import REJECT_TYPE

    out = []
    for e in tr:
        if e[0] == "error" and e[1] == REJECT_TYPE[c["via"]]:
            e = ["error", e[1], e[1] + ": "]
        out.append(e)
    return out


HEADER = (
    "From Coq Require Import List NArith ZArith Bool String Ascii.\nFrom VGI Require Import Corr M_Wire M_WireConn G_WireConn.\nImport ListNotations.\nOpen Scope N_scope.\n"
    "Definition view_t := (list event * (string * (string * (string * bool))))%type.\n"
    "Definition view_eqb (a b : view_t) : bool := trace_eqb (fst a) (fst b) && String.eqb (fst (snd a)) (fst (snd b)) && String.eqb (fst (snd (snd a))) (fst (snd (snd b)))\n"
    "  && String.eqb (fst (snd (snd (snd a)))) (fst (snd (snd (snd b)))) && Bool.eqb (snd (snd (snd (snd a)))) (snd (snd (snd (snd b)))).\n"
    "Definition cv (x : prog * script) : view_t := call_view gen_variant x.\n"
    "Definition rs (l : list (prog * script)) : list outcome := run_seq gen_variant conn0 l.\n"
    "Fixpoint seq_match (m r : list outcome) : bool := match m, r with\n"
    "  | _, [] => true | Obs t :: m', Obs t' :: r' => trace_eqb t t' && seq_match m' r' | Desync :: m', _ :: r' => seq_match m' r' | _, _ => false end.\n"
    "Definition wb (x : prog * script) : bool := wellbehaved gen_variant (fst x) (snd x).\n"
    "Definition cl (x : prog * script) : bool := clean (snd (conn_call gen_variant (fst x) (snd x))).\n"
)


def c_view(tr: list[list[Any]], st: dict[str, Any], cli: str) -> str:
    from props.C01 import c_trace
    from vlib.coqterm import cstr  # noqa: F401

    srv = st["srv"]
    srv = "dead" if (srv.startswith("dead") or srv == "returned") else srv
    return f'({c_trace(tr)}, ("{st["s2c"]}"%string, ("{srv}"%string, ("{cli}"%string, {"true" if st["c2s_unread"] else "false"}))))'


# --------------------------------------------------------------------------- real runs
class Real:
    """Drives the real implementation; programs are registered once under fresh pids."""

    def __init__(self) -> None:
        from harness import interp as I

        self.I = I
        self.pid = 40_000
        self.fresh: dict[str, Any] = {}
        self.runs = 0

    def reg(self, c: dict[str, Any]) -> None:
        if "pid" not in c:
            self.pid += 1
            c["pid"] = self.pid
            self.I.register(self.pid, c["prog"])

    def history(self, kind: str, calls: list[dict[str, Any]], want_state: bool) -> dict[str, Any]:
        from harness.c04_conn import Link

        for c in calls:
            self.reg(c)
        with Link(kind, "record") as link:
            traces = []
            open_after = []
            for c in calls:
                link.rec.mode = c["mode"]
                tr = link.run(c["via"], script_of(c, c["pid"]), close_after_exception=c["after"] != "abandon")
                self.runs += 1
                traces.append(norm_trace(c, tr))
                open_after.append(link.session_open)
                if link.poisoned:
                    break
            st = link.state() if want_state else None
            return {"traces": traces, "state": st, "open": open_after}

    def fresh_view(self, c: dict[str, Any], kind: str = "pipe") -> dict[str, Any]:
        key = kind + ":" + json.dumps([c["via"], c["kind"], c["prog"], c["h"], c["k"], c["after"], c["mode"]], sort_keys=True)
        if key not in self.fresh:
            r = self.history(kind, [c], True)
            tr = r["traces"][0]
            cli = "stuck" if tr and tr[-1] == ["blocked"] else ("session" if r["open"][0] else "idle")
            self.fresh[key] = {"trace": tr, "state": r["state"], "cli": cli}
        return self.fresh[key]


def leaves_dirty(fv: dict[str, Any]) -> bool:
    """REAL observation: the call, alone on a fresh connection, does not leave it clean."""
    st = fv["state"]
    return bool(st["s2c"]) or st["srv"] != "top" or fv["cli"] != "idle" or bool(st["c2s_unread"])


def culprit(calls: list[dict[str, Any]], fresh: list[dict[str, Any]], i: int) -> dict[str, Any] | None:
    """The first call before position i that -- observed alone on the real code -- leaves the connection dirty
    (None: every earlier call is clean on its own; the history as a whole is what breaks)."""
    for j in range(i):
        if leaves_dirty(fresh[j]):
            return calls[j]
    return None


def has_exc_log(c: dict[str, Any]) -> bool:
    p = c["prog"]
    logs = list(p.get("logs") or []) + list(p.get("init_logs") or []) + [l for st in p.get("steps") or [] for l in st["logs"]]
    return any(l[0] == "EXCEPTION" for l in logs)


def key_for(c: dict[str, Any] | None, fv: dict[str, Any] | None = None) -> str:
    """Finding class of a culprit call, from WHAT the call is (not from the generator's label) and from what it does
    alone on a fresh connection of the real code (``fv``).  Model-free: usable when the translation / model is broken."""
    if c is None:
        return "connection-unusable-after-ordinary-calls"
    srv = fv["state"]["srv"] if fv is not None else ""
    generic = "connection-unusable-after:" + c["label"]
    if c["kind"] == "unary":
        return KEY_CB_UNARY if c["mode"] == "raise" and c["via"] == "main" else generic
    headerless = not c["h"]
    prog = c["prog"]
    fault = "bad_return" if prog["init"] == "bad_return" else ("missing_header" if prog["init"] == "ok" and c["h"] and prog["header"] is None else None)
    if c["via"] == "main" and fault is not None:
        if srv.startswith("dead"):
            return KEY_BAD_RETURN if fault == "bad_return" else KEY_MISSING_HEADER
        return KEY_HEADERLESS if headerless else generic        # the (repaired) server answered the fault like an init error
    if c["via"] != "main" or isinstance(prog["init"], dict):
        return KEY_HEADERLESS if headerless else generic
    if c["mode"] == "raise":
        return KEY_CB_STREAM
    if has_exc_log(c):
        return KEY_EXC_LOG
    return generic


def is_open_abandon(c: dict[str, Any], fresh: dict[str, Any]) -> bool:
    """The call was abandoned with its session still open (not an ended call under the adopted reading)."""
    return c["after"] == "abandon" and c["kind"] != "unary" and fresh["cli"] == "session"


# fixed witnesses = the witnesses of coq/refuted/R_C04.v, replayed on the real code on every run:
# (key, which variant flag repairs it (None = none), call, expected view on the unrepaired code)
def _ok(logs: list[Any] | None = None) -> dict[str, Any]:
    return {"logs": logs or [], "emit": {"rows": 1, "meta": None}, "finish": False, "raise": None}


_SP = {"init_logs": [], "init": "ok", "header": 5, "steps": [_ok(), _ok()]}
WITNESSES: list[tuple[str, str | None, dict[str, Any]]] = [
    (KEY_MISSING_HEADER, "checks", mk_call("producer", {**_SP, "header": None}, True, 1, "close", label="missing_header")),
    (KEY_BAD_RETURN, "checks", mk_call("producer", {**_SP, "init": "bad_return"}, True, 1, "close", label="bad_return")),
    (KEY_CB_UNARY, "drains", mk_call("unary", {"logs": [["INFO", "l", {}]], "result": {"ok": 7}}, False, 0, "", mode="raise", label="cb_raise_unary")),
    (KEY_HEADERLESS, None, mk_call("producer", {**_SP, "init": {"raise": ["ValueError", "boom"]}}, False, 1, "close", label="init_error")),
    (KEY_HEADERLESS, None, mk_call("producer", {**_SP, "init": {"raise": ["ValueError", "boom"]}}, False, 0, "close", label="init_error")),
    (KEY_HEADERLESS, None, mk_call("exchange", _SP, False, 1, "close", via="unknown", label="unknown_method")),
    (KEY_CB_STREAM, None, mk_call("producer", {**_SP, "init_logs": [["INFO", "l", {}]]}, True, 1, "close", mode="raise", label="cb_raise_stream")),
    (KEY_CB_STREAM, None, mk_call("producer", {**_SP, "steps": [_ok([["INFO", "a", {}], ["INFO", "b", {}]]), _ok()]}, False, 2, "close", mode="raise", label="cb_raise_stream")),
    (KEY_EXC_LOG, None, mk_call("producer", {**_SP, "init_logs": [["EXCEPTION", "x", {}]]}, True, 1, "close", label="exc_log")),
    (KEY_EXC_LOG, None, mk_call("producer", {**_SP, "init_logs": [["EXCEPTION", "x", {}]]}, False, 0, "close", label="exc_log")),
]


def translate(ctx: Any) -> None:
    from translate import t_c04_guards, t_excflow

    ctx.gen("G_WireConn", lambda: t_c04_guards.variant_module(ctx.repo))
    ctx.gen("G_WireHandlers", lambda: t_excflow.handlers_module(ctx.repo))


def run(ctx: Any) -> None:
    translate(ctx)
    import harness.c04_conn  # noqa: F401 - registers the special exception classes with the interpreter before anything is rendered
    # the theorems do not depend on the source; the tie does -- built separately so that a tie broken by the source
    # under test leaves the theorem obligations standing
    ctx.prove(
        ["prop/P_C04.vo", "refuted/R_C04.vo", "tie/T_Wire.vo"],
        {
            "P_C04": ["C04_obs_is_run_pipe", "C04_guards_catch_every_fault", "C04_clean_after", "C04_unary_clean_whatever_the_callback", "C04_history_correct",
                      "C04_next_call_correct", "C04_next_call_reference", "C04_wellbehaved_reference", "C04_no_stuck"],
            "T_Wire": ["wire_handlers_tie"],
        },
    )
    ctx.prove(
        ["gen/G_WireConn.vo", "tie/T_WireConn.vo"],
        {"T_WireConn": ["variant_tie", "unary_handlers_tie", "C04_clean_after_src", "C04_next_call_correct_src", "C04_no_stuck_src", "C04_no_uncaught_fault_src",
                        "C04_unary_clean_src", "C04_faults_covered_src"]},
    )
    thorough = ctx.tier == "thorough"
    rng = ctx.rng
    real = Real()
    t0 = time.time()
    ctx.rule = ("history = 1-6 calls on ONE real connection (pipe, unix, tcp; thorough: + subprocess): plain calls (unary ok/raise, producer, exchange x "
                "header x stop/close/cancel x k) with one (thorough: up to two) failure call of a generated kind at a generated position "
                f"{FAULTS}, closed by a probe with a unique result; every call is also run alone on a fresh connection (baseline + state). "
                "distinct by (calls); non-trivial = contains a failure call followed by at least one more call")

    # ---------------------------------------------------------------- histories
    n_hist = 200 if thorough else 60
    hists: list[list[dict[str, Any]]] = []
    for label in FAULTS:                      # every failure kind at every position of a short history
        for pos in range(3):
            calls = [g_plain(rng) for _ in range(pos)] + [g_fault(rng, label)] + [g_plain(rng) for _ in range(2 - pos)]
            hists.append(calls)
    n_special = 0
    for calls in special_exc_histories():
        hists.append(calls)
        n_special += 1
    n_hist += n_special
    ctx.count("special_exception_histories", n_special)
    while len(hists) < n_hist:
        n = rng.randrange(1, 6)
        calls = [g_plain(rng) for _ in range(n)]
        for _ in range(2 if thorough and rng.random() < 0.3 else 1):
            calls[rng.randrange(n)] = g_fault(rng, rng.choice(FAULTS))
        hists.append(calls)
    for i, h in enumerate(hists):
        h.append(g_probe(rng, i))

    seq_cases: list[tuple[str, str]] = []
    n_desync_seen = 0
    for hi, calls in enumerate(hists):
        labels = [c["label"] for c in calls]
        ctx.case([[c["via"], c["kind"], c["prog"], c["h"], c["k"], c["after"], c["mode"]] for c in calls],
                 nontrivial=any(l not in ("plain", "probe") for l in labels[:-1]))
        ctx.tally("history_len", len(calls))
        for c in calls:
            ctx.tally("call_label", c["label"])
        fpos = next((i for i, l in enumerate(labels) if l not in ("plain", "probe")), None)
        ctx.tally("failure_position", "none" if fpos is None else ("first" if fpos == 0 else ("last-before-probe" if fpos == len(calls) - 2 else "middle")))
        fresh = [real.fresh_view(c) for c in calls]
        per_kind = {}
        for kind in KINDS:
            per_kind[kind] = real.history(kind, calls, want_state=False)["traces"]
        if per_kind["unix"] != per_kind["pipe"] or per_kind["tcp"] != per_kind["pipe"]:
            ctx.violation("socket-transports-differ", "the same history observes differently over pipe / unix / tcp",
                          {"calls": calls, **per_kind})
        traces = per_kind["pipe"]
        # ---- oracle: the property itself
        verdict = "every call got its own response"
        for i, tr in enumerate(traces):
            exp = fresh[i]["trace"]
            blocked = tr[-1:] == [["blocked"]]
            if tr == exp and not blocked:
                continue
            # call i blocks even on a fresh connection -> it is the culprit itself; otherwise something before it broke the connection
            cu = calls[i] if tr == exp else culprit(calls, fresh, i)
            if cu is not None and is_open_abandon(cu, real.fresh_view(cu)):
                verdict = "desync after an abandoned OPEN session (not an ended call)"
                break
            verdict = key_for(cu, real.fresh_view(cu) if cu is not None else None)
            n_desync_seen += 1
            ctx.violation(verdict, "a call on a shared connection did not receive its own response (or blocked)",
                          {"transport": "pipe (unix and tcp identical)", "calls": [{k: c[k] for k in ("via", "kind", "prog", "h", "k", "after", "mode", "label")} for c in calls],
                           "first_wrong_call_index": i, "observed": tr, "own_response_on_a_fresh_connection": exp, "all_traces": traces})
            break
        ctx.tally("oracle", verdict)
        seq_cases.append(("[" + "; ".join(model_call(c) for c in calls) + "]", "[" + "; ".join("Obs " + _ct(t) for t in traces) + "]"))
        if hi < 3:
            ctx.sample({"calls": calls, "traces": traces})
        if thorough and hi < 30:
            sub = _subprocess_history(real, calls)
            if sub is not None:
                # Compared up to and INCLUDING the first call that -- alone, on the real code -- leaves the connection dirty.
                # What later calls read on a desynchronised connection is unspecified (model: Desync) and legitimately
                # transport dependent: when serve() has ended an in-process serve thread leaves the pipe open (stale bytes
                # / blocked) while a worker PROCESS exits (EOF / broken pipe).  The same holds for a call that itself
                # ends the serve loop: pipe "blocked" vs subprocess TransportError.
                for i, (a, b) in enumerate(zip(sub, traces)):
                    serve_ended = b[-1:] == [["blocked"]] and a[-1:] and a[-1][0] in ("error", "client_exc", "blocked")
                    if a != b and not serve_ended:
                        ctx.violation("subprocess-differs-from-pipe", "a history observes differently over a subprocess worker", {"calls": calls, "index": i, "subprocess": a, "pipe": b})
                        break
                    if leaves_dirty(fresh[i]):
                        ctx.tally("subprocess_compare", "stopped at the first call that leaves the connection dirty")
                        break
                else:
                    ctx.tally("subprocess_compare", "whole history identical")
    ctx.log(f"histories: {len(hists)} x {len(KINDS)} transports, {real.runs} real calls in {time.time() - t0:.1f}s")

    # ---------------------------------------------------------------- single-call views (trace + connection state)
    singles = {}
    for calls in hists:
        for c in calls:
            singles[json.dumps([c["via"], c["kind"], c["prog"], c["h"], c["k"], c["after"], c["mode"]], sort_keys=True)] = c
    arms = arm_calls(rng, thorough)
    for c in arms:
        singles.setdefault(json.dumps([c["via"], c["kind"], c["prog"], c["h"], c["k"], c["after"], c["mode"]], sort_keys=True), c)
    ctx.count("arm_scenarios", len(arms))
    view_cases: list[tuple[str, str]] = []
    view_calls: list[dict[str, Any]] = []
    for c in singles.values():
        fv = real.fresh_view(c)
        view_cases.append((model_call(c), c_view(fv["trace"], fv["state"], fv["cli"])))
        view_calls.append(c)
        ctx.tally("state_after_single_call", f"{fv['state']['srv'].split(':')[0]}/{'dirty' if fv['state']['s2c'] else 'empty'}/{fv['cli']}")
    # state is transport independent: a sample of the singles over unix and tcp
    for c in list(singles.values())[:: (3 if thorough else 8)]:
        a = real.fresh_view(c)
        for kind in ("unix", "tcp"):
            b = real.fresh_view(c, kind)
            if (a["trace"], a["state"]["s2c"], a["state"]["srv"], a["cli"]) != (b["trace"], b["state"]["s2c"], b["state"]["srv"], b["cli"]):
                ctx.violation("socket-transports-differ:state", "connection state after one call differs between pipe and " + kind, {"call": c, "pipe": a, kind: b})
    ctx.log(f"single-call views: {len(view_cases)}; total real calls {real.runs} in {time.time() - t0:.1f}s")

    wb_cases = [(a, "true") for a, _ in view_cases]
    (ok1, bad1, log1), (ok2, bad2, log2), (ok3, notwb, log3) = coq_batch(ctx, [
        ("cv", "view_eqb", view_cases, "prog * script", "view_t", 110 if not thorough else 150),
        ("rs", "seq_match", seq_cases, "list (prog * script)", "list outcome", 30),
        ("wb", "Bool.eqb", wb_cases, "prog * script", "bool", 250),
    ])
    ctx.obligation("correspondence:M_WireConn.call_view", "correspondence", ok1 and not bad1, log1 if not ok1 else f"{len(bad1)} of {len(view_cases)} single calls disagree (trace or connection state)")
    for i in bad1[:3]:
        shown = ctx.coq_show(HEADER, f"cv {view_cases[i][0]}")
        ctx.violation("model-impl-disagree:call_view", "implementation and model disagree on a single call (trace / state after)",
                      {"call": view_calls[i], "impl": view_cases[i][1][:2500], "model": shown[-1800:]})
    ctx.obligation("correspondence:M_WireConn.run_seq", "correspondence", ok2 and not bad2, log2 if not ok2 else f"{len(bad2)} of {len(seq_cases)} histories disagree")
    for i in bad2[:3]:
        shown = ctx.coq_show(HEADER, f"rs {seq_cases[i][0]}")
        ctx.violation("model-impl-disagree:run_seq", "implementation and model disagree on a history", {"calls": hists[i], "impl": seq_cases[i][1][:2500], "model": shown[-1800:]})
    # the proven class on the implementation: wellbehaved (evaluated in Coq) => the REAL connection is clean afterwards.
    # A dirty call is reported under `dirty-inside-the-proven-class` only when Coq really placed it inside; when the
    # evaluation is unavailable (broken translation / model) every dirty single call is reported under the class the
    # real code puts it in (key_for is model-free), so a known class never shows up under another name.
    inside = 0
    notwb_set = set(notwb)
    for i, c in enumerate(view_calls):
        fv = real.fresh_view(c)
        dirty = leaves_dirty(fv)
        if ok3:
            if i in notwb_set:
                continue
            inside += 1
            if dirty:
                ctx.violation("dirty-inside-the-proven-class", "the real connection is not clean after a call that satisfies `wellbehaved`", {"call": c, "state": fv["state"], "cli": fv["cli"], "trace": fv["trace"]})
        elif dirty and not is_open_abandon(c, fv):
            ctx.violation(key_for(c, fv), "the real connection is not clean after this call, alone on a fresh connection (class decided on the real code; the model's class could not be evaluated)",
                          {"call": c, "state": fv["state"], "cli": fv["cli"], "trace": fv["trace"]})
    ctx.count("single_calls_inside_proven_class", inside)
    ctx.count("single_calls_outside_proven_class", len(notwb))
    ctx.obligation("oracle:proven-class-is-clean-on-implementation", "correspondence", ok3 and inside > 0, log3 if not ok3 else f"{inside} single calls inside `wellbehaved`, all clean on the real connection")

    # ---------------------------------------------------------------- witnesses of R_C04 on the real code
    src_variant = _src_variant(ctx)
    for key, repaired_by, call in WITNESSES:
        c = copy.deepcopy(call)
        probe = g_probe(rng, 999_000 + len(real.fresh))
        r = real.history("pipe", [c, probe], want_state=False)["traces"]
        exp = real.fresh_view(probe)["trace"]
        own = real.fresh_view(c)["trace"]
        wrong = (len(r) < 2) or r[1] != exp or (r[0] and r[0][-1] == ["blocked"])
        expected_wrong = repaired_by is None or not src_variant.get(repaired_by, False)
        ctx.tally("witness", f"{key}:{'reproduces' if wrong else 'clean'}")
        if wrong:
            ctx.violation(key, "refuted-lemma witness replayed on the real code: the call after it does not get its own response",
                          {"call": c, "probe": probe, "observed": r, "probe_on_fresh_connection": exp, "call_on_fresh_connection": own})
        if wrong != expected_wrong:
            ctx.obligation(f"witness:{key}", "refuted-replay", False,
                           f"witness {'reproduces' if wrong else 'does not reproduce'} but the source variant {src_variant} says it should{' not' if wrong else ''}")
    ctx.count("real_calls", real.runs)
    ctx.count("histories", len(hists))
    ctx.count("model_cases", len(view_cases) + len(seq_cases))
    ctx.assumptions += [
        "FIFO byte channels: pipe / unix / tcp carry the same frames in order (checked: identical traces and states)",
        "a rejected request (unknown method, parameter, protocol version) is answered by serve_one exactly like a raising init / method: error stream, return "
        "(checked by correspondence through three mismatching client protocols over the same transport)",
        "serve-thread position is read from sys._current_frames (function names _serve_stream / _read_request); blocking is decided from /proc/self/task/*/syscall "
        "+ FIONREAD (both sides in a read on an empty descriptor, no context switch between two samples), wall clock only as fallback",
        "Desync (a call on a connection that is not clean) is unspecified in the model: such calls are not compared, only flagged by the oracle",
    ]


def coq_batch(ctx: Any, jobs: list[tuple[str, str, list[tuple[str, str]], str, str, int]]) -> list[tuple[bool, list[int], str]]:
    """ctx.coq_mismatches for several (run, eqb, cases) at once: all shards of all jobs compile in ONE parallel wave."""
    import re

    from vlib.core import coqc_many

    texts, owner = [], []
    for j, (run_fn, eqb, cases, in_ty, out_ty, shard) in enumerate(jobs):
        for off in range(0, len(cases), shard):
            items = ";\n".join(f"({a}, {b})" for a, b in cases[off : off + shard])
            texts.append("Set Printing Width 1000000.\nSet Printing Depth 1000000.\n" + HEADER
                         + f"\nDefinition cs : list (({in_ty}) * ({out_ty})) := [\n{items}\n].\nEval vm_compute in (mismatches ({eqb}) ({run_fn}) cs).\n")
            owner.append((j, off))
    res = coqc_many(ctx.bdir, texts, timeout=900)
    out: list[tuple[bool, list[int], str]] = [(True, [], "") for _ in jobs]
    for (ok, txt), (j, off) in zip(res, owner):
        okj, bad, log = out[j]
        m = re.search(r"=\s*\[(.*?)\]\s*:\s*list nat", txt, flags=re.S)
        if not ok or m is None:
            out[j] = (False, bad, log + txt[-1200:])
            continue
        out[j] = (okj, bad + [off + int(x) for x in re.findall(r"\d+", m.group(1))], log)
    return out


def _ct(tr: list[list[Any]]) -> str:
    from props.C01 import c_trace

    return c_trace(tr)


def _src_variant(ctx: Any) -> dict[str, bool]:
    from translate import t_c04_guards as T

    try:
        return {"checks": T.serve_stream_checks(ctx.repo), "drains": T.unary_drains_any(T.unary_handlers(ctx.repo))}
    except Exception:  # noqa: BLE001 - translation broken: reported by ctx.gen already
        return {}


def _subprocess_history(real: Real, calls: list[dict[str, Any]]) -> list[list[Any]] | None:
    from harness import interp as I

    tmp = tempfile.mkdtemp(prefix="c04-")
    try:
        for c in calls:
            real.reg(c)
        I.dump_programs(f"{tmp}/programs.json", {c["pid"]: c["prog"] for c in calls})
        return real.history("subprocess", calls, want_state=False)["traces"]
    except Exception:  # noqa: BLE001
        return None
    finally:
        import shutil

        shutil.rmtree(tmp, ignore_errors=True)
