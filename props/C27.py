"""C27 Sticky lifecycle: opt-in, drain, and client token tracking.

proof         : coq/prop/P_C27.v over model/M_StickyLife.v (proof/L_StickyLife.v): for every server state and request
                a session is registered only when the request carried the opt-in and the worker is not draining
                (draining refusals are server_draining); requests without open_session behave identically with the
                drain flag on or off and a presented live token is always dispatched on its session; for ALL
                histories of client events (views x multi-action scripts x plain calls x drain toggles) and every
                view, the sessions the worker keeps live for the view are exactly [the view's token] / [] .
regenerated   : translate/t_c27_sticky.py reads CallContext.open_session/close_session, _SessionRegistry.open,
                _StickySink.open/.close, _StickyMiddleware.process_request/_open_session/process_response and
                _SessionTrackingClient._capture/_merge_headers with ast and emits gen/G_StickyLife.v (guard order,
                sink assignments, header emission rules, capture order); the theorems hold for every configuration with
                the modelled guard list that satisfies good_cfg (4 equations over all sink shapes); tie/T_StickyLife.v
                proves both for gen_cfg by computation and restates the theorems over gen_cfg.
correspondence: the REAL Falcon app (make_sync_client(enable_sticky=True)) + REAL session views
                (http_connect(...).with_session_token()) + drain_handle; histories of <= 6 events, <= 3 actions per
                request over {open, close, resume, noop}, 2 views, calls outside a view, hand-made header
                combinations (accept spellings, stale / garbage tokens) and drain toggles.  After EVERY event the
                registry contents, both view tokens, the error class, the sessions seen by `resume` actions and
                the two response headers are compared with the model interpreter M_StickyLife.run_obs instantiated with
                the regenerated programs (gen_cfg).
oracle        : independent of the model, on the real observations: (a) a session appears only in a request that
                carried the opt-in and only while not draining, draining refusals are ServerDrainingError /
                error_kind server_draining; (b) a request presenting the token of a live session is dispatched on
                that session (same state object) also during drain; (c) after every response each view's token
                names exactly the sessions minted by that view's requests that are still in the registry.

Readings adopted where the statement leaves room:
  * "carried VGI-Session-Accept" = the header value is `true` up to case and surrounding blanks (that is what the
    Python client sends; other values are treated as not carrying the opt-in, as the server does).
  * "the session the server keeps live for it" = sessions minted while serving a request of that view and still in
    the registry.  view.detach() and views created from a stashed token deliberately hand the token elsewhere and
    are outside "after every response"; TTL expiry is C26/C40 material (no time passes here, TTL 100000 s).
  * a request that ends in an error is still a response: the view must track what the server did before the error
    (e.g. open, then a second open that raises: the view holds the token of the first).
"""
from __future__ import annotations

import itertools
from typing import Any

META = {
    "id": "C27",
    "technique": "Coq proof (induction over all histories of multi-action requests) + regenerated guard/sink/emission/capture programs + differential correspondence on the real app and client views",
    "level_text": "Coq theorems over all server states, requests and histories: sessions are registered only with the opt-in "
    "and never while draining (server_draining), drain does not change the service of requests that do not open, a live "
    "token is always dispatched on its session, and after every response every view holds exactly the token of the "
    "session the worker keeps live for it.  The decisive code shapes (guard order, sink assignments, emitted headers, "
    "capture order) are regenerated from the source on every run and tied by reflexivity; the hand-written rest of "
    "the model is tied by running the real Falcon app and real client views against it after every event.",
    "level_note": "Trusted: Coq kernel (vm_compute), t_c27_sticky translator, harness.  Modelled not verified: token = "
    "session id (AEAD envelope is C25), ids numbered by order of minting, no TTL expiry, contextvar reset restores None, "
    "one worker process, sequential requests (concurrency is C26).",
    "design_ref": "§5 C27",
}

ACT = {"o": "AOpen", "c": "AClose", "r": "ARes", "n": "ANoop"}
GARBAGE_SID = 4000  # model id of a token that never named a session
ERR_CODE = {None: 0, "SessionLostError": 1, "ServerDrainingError": 2, "RuntimeError": 3}
ACCEPT_VALUES = [None, "true", "TRUE", " True ", "false", "1", "", "yes", "true, true"]


def translate(ctx: Any) -> None:
    from translate import t_c27_sticky

    ctx.gen(
        "G_StickyLife",
        lambda: "From Coq Require Import List Arith Bool.\nFrom VGI Require Import M_StickyLife.\nImport ListNotations.\n"
        + t_c27_sticky.cfg_definition(ctx.repo),
    )


def _accepts(v: str | None) -> bool:
    return v is not None and v.strip().lower() == "true"


# ---------------------------------------------------------------------------------------------------------
# history generation.  Events: ("view", k, acts) ("plain", acts) ("raw", tokref, accept_value, acts) ("drain", bool)
# tokref: None | ("sid", n) -> the token of model session n if the harness has seen it, else garbage | ("garbage",)
# ---------------------------------------------------------------------------------------------------------
def _scripts(maxlen: int) -> list[str]:
    return ["".join(p) for n in range(1, maxlen + 1) for p in itertools.product("ocrn", repeat=n)]


def _targeted() -> list[list[tuple[Any, ...]]]:
    hs: list[list[tuple[Any, ...]]] = []
    # every script of <= 3 actions as the last request, in four situations
    for s in _scripts(3):
        hs.append([("view", 0, s)])
        hs.append([("view", 0, "o"), ("view", 0, s), ("view", 0, "r")])
        hs.append([("drain", True), ("view", 0, s), ("view", 0, "r")])
        hs.append([("view", 0, "o"), ("drain", True), ("view", 0, s), ("view", 0, "r")])
    # the arms of the model one by one
    hs += [
        [("view", 0, "o"), ("view", 0, "co"), ("view", 0, "r"), ("view", 0, "o")],  # DESIGN §8
        [("view", 0, "co"), ("view", 0, "r")],
        [("view", 0, "oco"), ("view", 0, "r")],
        [("view", 0, "oc"), ("view", 0, "r")],
        [("view", 0, "oo"), ("view", 0, "r")],
        [("view", 0, "o"), ("view", 1, "o"), ("view", 0, "c"), ("view", 1, "r"), ("view", 0, "r")],
        [("view", 0, "o"), ("view", 1, "o"), ("view", 1, "co"), ("view", 0, "r"), ("view", 1, "r")],
        [("plain", "o"), ("plain", "c"), ("plain", "rco")],
        [("view", 0, "o"), ("plain", "c"), ("view", 0, "r")],
        [("view", 0, "o"), ("drain", True), ("view", 0, "r"), ("view", 1, "o"), ("view", 0, "c"), ("view", 0, "o"), ("drain", False), ("view", 0, "o")],
        [("drain", True), ("view", 0, "o"), ("drain", False), ("view", 0, "o"), ("drain", True), ("view", 0, "rcr")],
        [("view", 0, "o"), ("raw", ("sid", 0), None, "r"), ("raw", ("sid", 0), None, "co"), ("view", 0, "r")],
        [("view", 0, "o"), ("raw", ("sid", 0), "true", "co"), ("view", 0, "r")],
        [("raw", ("garbage",), "true", "r"), ("raw", ("garbage",), "true", "o")],
        [("view", 0, "o"), ("view", 0, "c"), ("raw", ("sid", 0), "true", "r")],
    ]
    for av in ACCEPT_VALUES:
        hs.append([("raw", None, av, "or"), ("drain", True), ("raw", None, av, "o")])
    return hs


def _random_history(rng: Any, nviews: int) -> list[tuple[Any, ...]]:
    h: list[tuple[Any, ...]] = []
    opened = 0
    for _ in range(rng.randint(2, 6)):
        x = rng.random()
        acts = "".join(rng.choice("ooccrn") for _ in range(rng.randint(1, 3)))
        if x < 0.62:
            h.append(("view", rng.randrange(nviews), acts))
        elif x < 0.72:
            h.append(("plain", acts))
        elif x < 0.84:
            tokref: Any = rng.choice([None, ("garbage",), ("sid", rng.randrange(opened + 1))])
            h.append(("raw", tokref, rng.choice(ACCEPT_VALUES), acts))
        else:
            h.append(("drain", rng.random() < 0.6))
        opened += acts.count("o")
    return h


# ---------------------------------------------------------------------------------------------------------
# running one history on the real implementation
# ---------------------------------------------------------------------------------------------------------
class _Run:
    """Observations of one history + the independent property oracle."""

    def __init__(self, world: Any, nviews: int) -> None:
        self.w = world
        self.k = nviews
        self.num: dict[str, int] = {}  # real session id hex -> order of minting
        self.serial: dict[int, Any] = {}  # session number -> state serial at open
        self.minted_by: dict[int, Any] = {}  # session number -> view index | "plain" | "raw"
        self.token_of: dict[int, str] = {}  # session number -> a real token naming it (when one was ever emitted)
        self.draining = False
        self.off: set[int] = set()  # views whose (c) check is switched off for the rest of the history
        self.problems: list[tuple[str, str]] = []

    def n(self, sid_hex: str | None) -> int | None:
        if sid_hex is None:
            return None
        if sid_hex not in self.num:
            # a session the method never reported: give it an id the model cannot produce
            self.num[sid_hex] = 4900 + len(self.num)
        return self.num[sid_hex]

    def step(self, ev: tuple[Any, ...]) -> tuple[Any, tuple[Any, ...]]:
        """Returns (model event, observation tuple)."""
        w = self.w
        if ev[0] == "drain":
            w.set_drain(ev[1])
            self.draining = ev[1]
            obs = (self.reg(), self.views(), 0, [], None, False)
            return ("drain", ev[1]), obs
        reg_before = self.reg()
        view_before = None
        if ev[0] == "view":
            who: Any = ev[1]
            accept = True
            view_before = self.n(w.view_sid(ev[1])[1])
            presented = view_before
            etype, ekind, log = w.call_view(ev[1], ev[2])
            acts = ev[2]
            mev: tuple[Any, ...] = ("view", ev[1], acts)
        elif ev[0] == "plain":
            who, accept, presented = "plain", False, None
            etype, ekind, log = w.call_plain(ev[1])
            acts = ev[1]
            mev = ("plain", acts)
        else:
            _, tokref, av, acts = ev
            who, accept = "raw", _accepts(av)
            token = None
            presented = None
            if tokref is not None:
                if tokref[0] == "sid" and tokref[1] in self.token_of:
                    token, presented = self.token_of[tokref[1]], tokref[1]
                else:
                    token, presented = "AAAAAAAAAAAAAAAAAAAAAAAAAAAAAAAAAAAAAAAAAAAAAAAAAAAAAAAAAAAAAAAAAAAAAAAAAAAAAAAAAAAAAAAAAAAAAAAAAAAAAAAAAAAA", GARBAGE_SID
            etype, ekind, log, _ht, _hc, _status = w.raw(acts, av, token)
            mev = ("raw", presented, accept, acts)
            if etype == "ServerDrainingError" and ekind != "server_draining":
                self.problems.append(("draining-refusal-without-error-kind", f"ServerDrainingError carried error_kind {ekind!r}"))
            if etype == "SessionLostError" and ekind != "session_lost":
                self.problems.append(("session-lost-without-error-kind", f"SessionLostError carried error_kind {ekind!r}"))
        # number the sessions in order of minting
        for e in log:
            if e[0] == "o":
                m = len([v for v in self.num.values() if v < 4900])
                self.num[e[1]] = m
                self.serial[m] = e[2]
                self.minted_by[m] = who
        hdr_tok_raw = w.last_headers.get("vgi-session")
        hdr_tok = self.n(w.sid_of_token(hdr_tok_raw)) if hdr_tok_raw else None
        if hdr_tok_raw and hdr_tok is None:
            hdr_tok = 4899  # an unopenable token in the header
        if hdr_tok is not None and hdr_tok_raw:
            self.token_of.setdefault(hdr_tok, hdr_tok_raw)
        hdr_close = (w.last_headers.get("vgi-session-close") or "").strip().lower() == "true"
        code = ERR_CODE.get(etype, 99)
        seen = [self.n(e[1]) for e in log if e[0] == "r"]
        reg_after = self.reg()
        obs = (reg_after, self.views(), code, seen, hdr_tok, hdr_close)

        # ---------------- property oracle (independent of the model) ----------------
        opened_now = [self.num[e[1]] for e in log if e[0] == "o"]
        appeared = [s for s in reg_after if s not in reg_before]
        if (opened_now or appeared) and not accept:
            self.problems.append(("session-opened-without-opt-in", f"sessions {opened_now or appeared} were opened by a request without VGI-Session-Accept: true"))
        if (opened_now or appeared) and self.draining:
            self.problems.append(("session-opened-while-draining", f"sessions {opened_now or appeared} were opened while the worker drains"))
        raised = [e[1] for e in log if e[0] == "x"]
        if "ServerDrainingError" in raised and not self.draining:
            self.problems.append(("server-draining-while-not-draining", "open_session raised ServerDrainingError although the worker is not draining"))
        if "ServerDrainingError" in raised and etype != "ServerDrainingError":
            self.problems.append(("draining-refusal-not-reported", f"the client saw {etype!r} for a ServerDrainingError"))
        if self.draining and accept and presented is None and acts[0] == "o" and etype != "ServerDrainingError":
            self.problems.append(("open-while-draining-not-refused-as-server-draining", f"open_session during drain gave {etype!r}"))
        # (b) existing sessions keep serving (always, in particular during drain)
        if presented is not None and presented in reg_before:
            if etype == "SessionLostError":
                self.problems.append(("live-session-refused" + ("-during-drain" if self.draining else ""), f"token of live session {presented} answered session_lost"))
            if acts[0] == "r":
                first = next((e for e in log if e[0] == "r"), None)
                if first is None or self.n(first[1]) != presented or first[2] != self.serial.get(presented):
                    self.problems.append(("live-session-not-served" + ("-during-drain" if self.draining else ""), f"request with the token of live session {presented} saw {first}"))
        for e in log:
            if e[0] == "r" and e[1] is not None and self.serial.get(self.n(e[1])) != e[2]:
                self.problems.append(("resume-sees-foreign-state", f"session {self.n(e[1])} was served state #{e[2]}, opened with #{self.serial.get(self.n(e[1]))}"))
        # (c) after every response: view token = the live session minted by this view's requests
        if ev[0] == "raw" and presented is not None and self.minted_by.get(presented) in range(self.k) and "c" in acts:
            # a third party used a view's token by hand and closed its session: the view cannot know; not the property's subject
            self.off.add(self.minted_by[presented])
        for k in range(self.k):
            if k in self.off:
                continue
            live_k = [s for s in reg_after if self.minted_by.get(s) == k]
            tok_k = obs[1][k]
            want = [] if tok_k is None else [tok_k]
            if live_k != want:
                self.off.add(k)  # report the first divergence of a view only; later steps inherit it
                if tok_k is None and ev[0] == "view" and ev[1] == k and "c" in acts and "o" in acts[acts.index("c"):]:
                    key = "close-then-open-orphans-session"
                elif tok_k is None or any(s != tok_k for s in live_k):
                    key = "live-session-orphaned"
                else:
                    key = "view-holds-token-of-dead-session"
                self.problems.append((key, f"after {ev}: view {k} holds {tok_k}, the worker keeps {live_k} live for it"))
        return mev, obs

    def reg(self) -> list[int]:
        return [self.n(s) for s in self.w.registry_ids()]  # type: ignore[misc]

    def views(self) -> list[int | None]:
        out: list[int | None] = []
        for k in range(self.k):
            tok, sid = self.w.view_sid(k)
            out.append(None if tok is None else (self.n(sid) if sid is not None else 4898))
        return out


def _coq_event(mev: tuple[Any, ...]) -> str:
    def acts(s: str) -> str:
        return "[" + "; ".join(ACT[a] for a in s) + "]"

    if mev[0] == "view":
        return f"EvView {mev[1]} {acts(mev[2])}"
    if mev[0] == "plain":
        return f"EvPlain {acts(mev[1])}"
    if mev[0] == "raw":
        tok = "None" if mev[1] is None else f"(Some {mev[1]})"
        return f"EvRaw {tok} {'true' if mev[2] else 'false'} {acts(mev[3])}"
    return f"EvDrain {'true' if mev[1] else 'false'}"


def _coq_obs(o: tuple[Any, ...]) -> str:
    def on(x: int | None) -> str:
        return "None" if x is None else f"Some {x}"

    reg, views, code, seen, ht, hc = o
    return (
        f"([{'; '.join(str(x) for x in reg)}], [{'; '.join(on(x) for x in views)}], {code}, "
        f"[{'; '.join(on(x) for x in seen)}], {on(ht)}, {'true' if hc else 'false'})"
    )


def run(ctx: Any) -> None:
    translate(ctx)
    ctx.prove(
        ["prop/P_C27.vo", "refuted/R_C27.vo"],
        {
            "P_C27": [
                "C27_open_only_with_accept_and_not_draining", "C27_draining_open_yields_server_draining",
                "C27_server_draining_only_while_draining", "C27_existing_serve_during_drain", "C27_drain_does_not_change_service",
                "C27_view_equals_live", "C27_no_live_session_orphaned", "C27_model_is_good",
            ],
            "R_C27": ["C27_close_then_open_orphans_refuted", "C27_noop_close_then_open_orphans_refuted", "C27_old_cfg_not_good"],
        },
    )
    # the tie separately: when the source no longer has the proved shape only these obligations break
    tie_ok = ctx.prove(
        ["tie/T_StickyLife.vo"],
        {"T_StickyLife": ["sticky_guards_tie", "sticky_cfg_tie", "C27_source_view_equals_live", "C27_source_no_live_session_orphaned",
                          "C27_source_open_only_with_accept_and_not_draining", "C27_source_draining_open_yields_server_draining"]},
    )
    have_gen = (ctx.bdir / "gen" / "G_StickyLife.vo").exists() and "Definition gen_cfg" in (ctx.bdir / "gen" / "G_StickyLife.v").read_text()
    if not tie_ok and have_gen:
        # G_StickyLife.vo may be stale when the build of the tie stopped early: rebuild it alone
        from vlib.core import coq_make

        have_gen, _ = coq_make(ctx.bdir, ["gen/G_StickyLife.vo"])

    from harness.c27_service import World

    nviews = 2
    histories = _targeted()
    nrand = 400 if ctx.tier == "quick" else 6000
    for _ in range(nrand):
        histories.append(_random_history(ctx.rng, nviews))
    ctx.rule = (
        "case = one history of <= 6 events on a fresh registry with 2 client session views: request through a view / outside "
        "any view / with hand-made headers (accept spelling, live, stale or garbage token), each performing <= 3 actions of "
        "{open, close, resume, noop}, and drain toggles.  Targeted: every script of <= 3 actions as a view request in 4 "
        "situations (fresh, after open, draining, after open + draining) + one scenario per model arm; random: seeded. "
        "Distinct by the full history; non-trivial = at least one open or close action."
    )
    world = World(nviews)
    cases: list[tuple[str, str]] = []
    shown: list[list[tuple[Any, ...]]] = []
    first_problem: dict[str, tuple[str, Any]] = {}
    try:
        for h in histories:
            world.reset(nviews)
            r = _Run(world, nviews)
            mevs, obss = [], []
            for ev in h:
                mev, obs = r.step(ev)
                mevs.append(mev)
                obss.append(obs)
                ctx.count("impl_runs")
                ctx.tally("event", ev[0])
                if ev[0] != "drain":
                    ctx.tally("actions_per_request", len(mev[-1]))
            ctx.case([list(map(list, h))], nontrivial=any(("o" in e[-1] or "c" in e[-1]) for e in h if e[0] != "drain"))
            for key, what in r.problems:
                if key not in first_problem:
                    first_problem[key] = (what, h)
                ctx.violation(key, what, {"history": [list(e) for e in h], "views": nviews, "observations": [list(o) for o in obss],
                                          "how": "harness.c27_service.World(2): ('view',k,acts) -> views[k].script(acts=acts); 'o' open_session, 'c' close_session, 'r' read ctx.session"})
            cases.append((f"({nviews}, [{'; '.join(_coq_event(m) for m in mevs)}])", "[" + "; ".join(_coq_obs(o) for o in obss) + "]"))
            shown.append(h)
    finally:
        world.shutdown()
    for h in (histories[0], [("view", 0, "o"), ("view", 0, "co"), ("view", 0, "r")], histories[-1]):
        ctx.sample({"history": [list(e) for e in h]})

    # The model interpreter is run with the programs regenerated from THIS source tree (gen_cfg); tie/T_StickyLife.v is
    # what says that they are the proved ones.  Without a usable translation fall back to the proved programs.
    header = "From Coq Require Import List Arith Bool.\nFrom VGI Require Import M_StickyLife.\nImport ListNotations.\nOpen Scope nat_scope."
    runner = "run_case"
    if have_gen:
        header += "\nFrom VGI Require Import G_StickyLife.\nDefinition run_gen (x : nat * list event) : list obs := run_obs gen_cfg (fst x) world0 (snd x)."
        runner = "run_gen"
    ctx.notes.append(f"correspondence ran the model interpreter with {'the regenerated programs (gen_cfg)' if have_gen else 'cfg_model (no usable translation)'}")
    ok, bad, clog = ctx.coq_mismatches(header, runner, "obss_eqb", cases, "nat * list event", "list obs", shard=300)
    ctx.count("model_cases", len(cases))
    ctx.obligation("correspondence:M_StickyLife.run_obs", "correspondence", ok and not bad, clog if not ok else f"{len(bad)} of {len(cases)} histories disagree")
    for i in bad[:3]:
        model = ctx.coq_show(header, f"{runner} {cases[i][0]}")
        ctx.violation(
            "model-impl-disagree",
            "implementation and model interpreter behave differently on a history",
            {"history": [list(e) for e in shown[i]], "impl": cases[i][1], "model": model[-1500:]},
        )
    ctx.assumptions += [
        "token = session id: sealing/opening of the session token is not modelled (C25); ids are numbered by order of minting",
        "no TTL expiry (sticky_default_ttl=100000 s, no reaper eviction occurs during a history); one worker; requests are sequential (C26 owns concurrency)",
        "ContextVar.reset in _close_session restores None (open refuses while a session is bound; resume binds at request start) - a leak would show as a differing resume observation",
        "views start without a token and detach() is not called (both hand the token to the caller on purpose)",
        "in-process Falcon test client stands for the HTTP transport; unary methods stand for all method kinds (the middleware is method-agnostic)",
    ]
