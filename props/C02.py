"""C02 Parameter and result values round-trip exactly.

proof        : coq/prop/P_C02.v over model/M_Values.v (type grammar `ty`, Python values, pyarrow conversion
               `arrow_rt`, the framework's `_convert_for_arrow` / schema construction / `_deserialize_value`,
               `param_path`, `result_path`, `echo`), by structural induction on the annotation, unbounded depth.
regenerated  : translate/t_c02_values.py -> gen/G_Values.v: the isinstance chain of `_convert_for_arrow`, branch order
               and `type_map` of `_infer_arrow_type`, whether `_build_result_schema` strips Optional before its
               dataclass test (`gen_result_opt_first`), and exact statement shapes of every other function on the
               value path; tie/T_Values.v proves them equal to what the model was written from and restates the
               theorems for the source's flag.
correspondence: (A) pyarrow alone, pa.array([v], type=_infer_arrow_type(T))[0].as_py() vs `arrow_rt (infer t)`, per
               type at boundaries and on a pool of ill-typed values (environment facts: a pyarrow difference shows
               here, a repository change does not);
               (B) echo methods `def m(self, v: T [= default]) -> T` of Protocols built at run time, served by the real
               RpcServer on the socket-family byte protocol (real client writer -> serve_one -> real client reader),
               through the real HTTP app (make_sync_client + http_connect) and, for a subset, real pipe threads
               (serve_pipe): kwargs seen by the implementation vs `param_path`, returned value vs `echo`, omitted
               argument vs `echo_call`.
oracle       : on every real call, independently of the model: a value of a supported annotation is accepted and
               both the kwargs seen and the value returned are that value (type-exact, floats bit for bit, sets
               and dicts extensionally, aware datetimes the same instant, decimals numerically); any other value
               is rejected or arrives denoting the same value (`same_value`).

Readings adopted:
  * "lists, maps and sets of scalars": containers whose elements need no framework conversion (scalars, Optional
    scalars, nested lists of those).  list[Enum], list[Dataclass], list[dict], dict[str, Enum], ... are accepted by
    the framework at class-definition time but are outside the enumerated types; their behaviour (loud rejection
    of every non-empty value, or, for list[dict[..]], arrival as a list of lists of pairs) is tallied, modelled and
    corresponded, documented in refuted/R_C02.v, and NOT reported as a violation of this property.
  * "a value the declared type cannot represent is rejected rather than silently changed": an accepted value must
    denote the value that was passed.  Representation-only coercions that lose nothing (int 3 for float -> 3.0,
    tuple for list, "RED" for an Enum parameter -> Color.RED, the serialized bytes for a dataclass parameter,
    list for frozenset, pairs for dict with dict() semantics) are not violations.
  * an instance (or serialized bytes) of a different dataclass passed for a dataclass parameter is an ill-typed call; that
    deserialize_from_batch accepts it when every missing field has a default (schema evolution) is tallied, not flagged.
  * annotation spellings are a generated dimension (X, X | None, Optional[X], Annotated[X, m], Annotated[X, m] | None,
    Optional[Annotated[X, ArrowType(..)]], Annotated[X | None, m], Annotated inside containers).  The framework strips Optional
    first and Annotated second everywhere; before fix e0af9e7 _is_optional_type did not look through Annotated, so Annotated[X | None, m]
    was not optional (None refused, Enum/dict/frozenset arrived unconverted): a genuine defect of this property, repaired; the check for
    it stays (key optional-marker-inside-annotated-not-recognised) and the model's is_opt follows the repaired shape (is_optional_tie).
  * inherited dataclasses (a serializable dataclass extending another) are echoed in a fixed order, parent-first and leaf-first
    families, before anything else in the process serializes them (phase 0); oracle only, no model cases.
  * sets (`frozenset`) only: `set[T]` is refused by _infer_arrow_type at class-definition time.
  * equality of floats is bit equality (NaN payload, signed zero).
"""
from __future__ import annotations

import datetime as dt
from decimal import Decimal
from typing import Any

META = {
    "id": "C02",
    "technique": "Coq proof (structural induction on the annotation grammar, IEEE narrowing on bit patterns) + regenerated "
    "conversion tables / schema-shape flag + differential correspondence against pyarrow and the real echo path",
    "level_text": "Coq theorems for every supported annotation (unbounded nesting) and every value: a well-typed "
    "representable value is accepted and arrives bit-exactly at the implementation and back at the caller "
    "(C02_accepts, C02_param_exact, C02_echo), any accepted value of a plain annotation outside four spelled-out lossy "
    "classes denotes the value passed (C02_no_silent_change_partial), None is refused in non-optional positions. The "
    "model follows the source through regenerated tables and the result-schema flag; pyarrow's converter and the "
    "whole echo path are tied by correspondence on generated signatures (depth <= 3) over socket-family bytes and HTTP.",
    "level_note": "partial: pyarrow's C++ conversion is modelled and validated per type, not verified; decimal128 and "
    "struct columns are outside the Coq model (oracle on the implementation only); time zones other than UTC, "
    "datetime.fold, tz-aware datetime.time are not modelled; dataclass (de)serialization enters as a Section "
    "hypothesis deser (ser d) = Some d (property C03); Arrow IPC framing is the identity (trusted). Four lossy "
    "classes are refuted on the unchanged pyarrow/framework pair (R_C02.v).",
    "design_ref": "§5 C02",
}


def translate(ctx: Any) -> None:
    from translate import t_c02_values

    ctx.gen("G_Values", lambda: t_c02_values.generate(ctx.repo))


HEADER = "From Coq Require Import List NArith ZArith Bool.\nFrom VGI Require Import M_Values.\nImport ListNotations.\nOpen Scope Z_scope."


# ---------------------------------------------------------------------------------------------- python mirrors
def wire_plain(t: tuple) -> bool:
    if t[0] in ("opt", "list", "ann"):
        return wire_plain(t[1])
    return t[0] in ("int", "float", "str", "bytes", "bool", "date", "ts", "time", "dur", "dec")


def supported(t: tuple) -> bool:
    """Mirror of M_Values.supported: X, X | None, Annotated[X, m], Annotated[X, m] | None, Annotated[X | None, m]."""
    if t[0] == "ann" and t[1][0] == "opt":
        t = t[1][1]
    else:
        if t[0] == "opt":
            t = t[1]
        if t[0] == "ann":
            t = t[1]
    if t[0] in ("opt", "ann"):
        return False
    if t[0] in ("enum", "data"):
        return True
    if t[0] == "set":
        return wire_plain(t[1])
    if t[0] == "map":
        return wire_plain(t[1]) and wire_plain(t[2]) and t[1][0] != "opt"
    return wire_plain(t)


def shape(t: tuple) -> str:
    from harness.c02_echo import kind_of

    if t[0] in ("opt", "list", "set", "ann"):
        return f"{t[0]}-{shape(t[1])}"
    if t[0] == "map":
        return f"map-{shape(t[1])}-{shape(t[2])}"
    return kind_of(t)


def lossy_class(t: tuple, v: Any) -> str | None:
    """The refuted class (R_C02.v) a changed arrival of v at annotation t belongs to, if any."""
    from harness.c02_echo import UNITS, f32_representable

    if t[0] == "opt":
        return None if v is None else lossy_class(t[1], v)
    if t[0] in ("list", "set") and isinstance(v, (list, tuple, set, frozenset)):
        for x in v:
            c = lossy_class(t[1], x)
            if c:
                return c
        return None
    if t[0] == "map":
        try:
            items = list(dict(v).items())
        except Exception:  # noqa: BLE001
            return None
        for a, b in items:
            c = lossy_class(t[1], a) or lossy_class(t[2], b)
            if c:
                return c
        return None
    if t[0] == "float" and t[1] == 32 and isinstance(v, float) and v == v and not f32_representable(v):
        return "float32-narrowing-silently-rounds"
    if t[0] in ("int", "date", "ts", "time", "dur") and isinstance(v, (float, Decimal)) and not isinstance(v, bool):  # integer-valued columns
        try:
            if v != int(v):
                return "fractional-number-for-int-silently-truncated"
        except (ValueError, OverflowError):
            return None
        return None
    if t[0] == "date" and isinstance(v, dt.datetime):
        return "temporal-subunit-silently-truncated"
    if t[0] == "ts" and isinstance(v, dt.datetime):
        if (v.tzinfo is not None) != t[2]:
            return "timestamp-timezone-silently-dropped-or-assumed"
        if v.microsecond % UNITS[t[1]] if t[1] != "s" else v.microsecond:
            return "temporal-subunit-silently-truncated"
    if t[0] == "time" and isinstance(v, dt.time) and t[1] in ("s", "ms") and (v.microsecond % UNITS[t[1]] if t[1] == "ms" else v.microsecond):
        return "temporal-subunit-silently-truncated"
    if t[0] == "dur" and isinstance(v, dt.timedelta) and t[1] in ("s", "ms") and (v.microseconds % UNITS[t[1]] if t[1] == "ms" else v.microseconds):
        return "temporal-subunit-silently-truncated"
    return None


def targeted_ill(t: tuple, rng: Any) -> list[Any]:
    """Ill-typed / unrepresentable values aimed at annotation t (every arm of scalar_rt gets visitors)."""
    import harness.c02_echo as H

    k = t[0]
    if k == "opt":
        return targeted_ill(t[1], rng)
    if k == "int":
        lo, hi = (-(2 ** (t[2] - 1)), 2 ** (t[2] - 1) - 1) if t[1] else (0, 2 ** t[2] - 1)
        return [lo - 1, hi + 1, True, 1.5, -0.5, float(hi) + 0.9 if t[2] < 64 else 2.0**63, 1.0, float("nan"), "1", None]
    if k == "float":
        return [0.1, 1e39, 16777217.0, 1e-46, 3, 2**53 + 1, 16777217, True, "1.0", None, H.f_of_bits(0x7FF0000000000001), H.f_of_bits(0x7FF8DEADBEEF0001)]
    if k == "str":
        return ["\ud800", "ok\udfff", b"abc", b"\xff", 1, None]
    if k == "bytes":
        return ["abc", bytearray(b"x"), 1, None]
    if k == "bool":
        return [1, 0, 1.0, "true", None]
    if k == "enum":
        return ["RED", "r", "N1", "nope", 1, None, H.Color.RED, H.Weird["N1"]]
    if k == "data":
        return [H.Pt(1, 2.0).serialize_to_bytes(), b"junk", H.Pt(1, 2.0), H.Box(H.Pt(0, 0.0)), None, "x"]
    if k in ("date", "ts", "time", "dur"):
        return [
            dt.datetime(2020, 1, 2, 3, 4, 5, 678901, tzinfo=dt.timezone.utc if (t[0] == "ts" and t[2]) else None), dt.date(2020, 1, 2),
            dt.datetime(2020, 1, 2, 3, 4, 5, 678901), dt.datetime(2020, 1, 2, 3, 4, 5, 678901, tzinfo=dt.timezone.utc),
            dt.datetime(2020, 1, 2, 3, 4, 5, tzinfo=dt.timezone.utc), dt.datetime(1969, 12, 31, 23, 59, 59, 999999), dt.time(1, 2, 3, 456789),
            dt.timedelta(microseconds=-1), dt.timedelta(days=1, microseconds=1), dt.timedelta.max, dt.datetime.min, dt.datetime.max, "x", None,
        ]
    if k == "dec":
        return [Decimal("1.234"), Decimal("NaN"), Decimal("123456789012.5"), 5, 1.5, "1.2", None]
    if k == "list":
        return [(1, 2), [None], [1.5], "ab", {"a": 1}, frozenset([1]), 1, None] + [[x] for x in targeted_ill(t[1], rng)[:4]]
    if k == "set":
        return [[1, 1], [1.5], {1, 2}, None, 1] + [frozenset([x]) for x in targeted_ill(t[1], rng)[:3] if _hashable(x)]
    if k == "map":
        return [[("a", 1), ("a", 2)], [("a", 1)], [["a", 1]], [("a",)], [(None, 1)], {"a": 1.5}, {1: 2}, None, 1, [1]]
    return [None]


def unsafe(t: tuple, v: Any) -> bool:
    """pyarrow 25.0.1 aborts the whole process (C++ CHECK "Map array child array should have no nulls") when a
    sequence given for a map column contains None as an item; such values are never handed to pyarrow here."""
    if t[0] == "opt":
        return unsafe(t[1], v)
    if t[0] == "map":
        if isinstance(v, (list, tuple)):
            return any(x is None for x in v) or any(isinstance(x, tuple) and len(x) == 2 and unsafe(t[2], x[1]) for x in v)
        if isinstance(v, dict):
            return any(unsafe(t[2], x) for x in v.values())
        return False
    if t[0] in ("list", "set") and isinstance(v, (list, tuple, set, frozenset)):
        return any(unsafe(t[1], x) for x in v)
    return False


def model_skip(t: tuple, v: Any) -> bool:
    """Dataclass decoding is abstract in the model (deser (ser d) = Some d): bytes that are not the serialization of
    an instance of the declared class, or instances of another class, are checked by the oracle only."""
    import harness.c02_echo as H

    if t[0] == "opt":
        return model_skip(t[1], v)
    if t[0] == "data":
        return isinstance(v, (bytes, bytearray, str)) or (isinstance(v, H.ArrowSerializableDataclass) and type(v) is not H.DATAS[t[1]])
    if t[0] == "set" and isinstance(v, (list, tuple)):
        # frozenset results are encoded in a canonical element order; a sequence given for a frozenset is compared
        # with the model only when it already is in that order (iteration order of sets is abstracted)
        try:
            return [H.sort_key(x) for x in v] != sorted(H.sort_key(x) for x in v)
        except TypeError:
            return True
    return False


def _hashable(x: Any) -> bool:
    try:
        hash(x)
        return True
    except TypeError:
        return False


def spelling_types() -> list[tuple]:
    """Annotation SPELLINGS as a dimension: every way of writing (optional) X with or without Annotated metadata / an explicit
    ArrowType, crossed with the base types that need a conversion after as_py() (dict, frozenset, Enum, dataclass) + controls."""
    i64, i32, s_ = ("int", True, 64), ("int", True, 32), ("str",)
    bases = [("map", s_, i64), ("set", i64), ("enum", 0), ("enum", 2), ("data", 0), ("data", 4), i64, s_, ("list", i64)]
    arrowable = [("map", s_, i32), ("set", ("int", False, 16)), ("list", ("float", 32)), i64, ("map", s_, ("opt", i64))]
    out: list[tuple] = []
    for x in bases:
        out += [("opt", x, "bar"), ("opt", x, "typing"), ("ann", x), ("opt", ("ann", x), "bar"), ("opt", ("ann", x), "typing"), ("ann", ("opt", x, "bar"))]
    for x in arrowable:
        out += [("ann", x, "arrow"), ("opt", ("ann", x, "arrow"), "typing"), ("opt", ("ann", x, "arrow"), "bar")]
    out += [("list", ("ann", i64)), ("list", ("ann", ("opt", i64, "bar"))), ("map", s_, ("ann", i64)), ("set", ("ann", s_)), ("opt", ("list", ("ann", ("opt", s_))), "typing")]
    return out


def opt_inside_ann(t: tuple) -> bool:
    """Annotated[X | None, meta] at the top of a parameter / result annotation, X otherwise supported."""
    return t[0] == "ann" and t[1][0] == "opt" and supported(("opt", t[1][1]))


def type_universe(ctx: Any) -> list[tuple]:
    import harness.c02_echo as H

    rng = ctx.rng
    base = list(H.SCALARS) + list(H.DECIMALS) + [("enum", k) for k in range(len(H.ENUMS))] + [("data", k) for k in range(len(H.DATAS))]
    plain = list(H.SCALARS)
    comp: list[tuple] = []
    core = [("int", True, 64), ("float", 64), ("float", 32), ("str",), ("bytes",), ("bool",), ("int", False, 8), ("ts", "us", False), ("ts", "s", True), ("date",), ("dur", "ms")]
    for s in core:
        comp += [("opt", s), ("list", s), ("set", s) if s[0] != "bytes" or True else s, ("map", ("str",), s), ("list", ("opt", s))]
    comp += [("opt", ("enum", 0)), ("opt", ("enum", 1)), ("opt", ("data", 0)), ("opt", ("data", 1)), ("opt", ("dec", 10, 2))]
    always = [("opt", ("data", 2)), ("opt", ("data", 3)), ("opt", ("enum", 2)), ("opt", ("enum", 3))]  # enums whose values are sibling names
    always += [("opt", ("data", 4)), ("opt", ("data", 5))]  # Optional dataclass fields with non-None defaults, explicitly None
    comp += [("map", ("int", True, 64), ("str",)), ("map", ("bytes",), ("float", 64)), ("map", ("str",), ("opt", ("int", True, 64))), ("map", ("date",), ("bool",))]
    comp += [("list", ("list", ("int", True, 64))), ("list", ("list", ("list", ("str",)))), ("opt", ("list", ("opt", ("float", 32)))), ("opt", ("map", ("str",), ("int", True, 8))),
             ("opt", ("set", ("str",))), ("map", ("str",), ("list", ("int", True, 64))), ("set", ("opt", ("int", True, 64))), ("list", ("dec", 10, 2))]
    # accepted by the framework at class-definition time but outside the statement's enumerated types
    outside = [("list", ("enum", 0)), ("list", ("data", 0)), ("list", ("map", ("str",), ("int", True, 64))), ("map", ("str",), ("enum", 0)), ("map", ("str",), ("data", 0)),
               ("set", ("enum", 0)), ("list", ("set", ("int", True, 64))), ("opt", ("list", ("map", ("str",), ("str",)))), ("map", ("enum", 0), ("int", True, 64)),
               ("map", ("str",), ("map", ("str",), ("int", True, 64)))]
    for _ in range(12 if ctx.tier == "quick" else 120):
        a, b = rng.choice(plain), rng.choice(plain)
        comp.append(rng.choice([("opt", a), ("list", a), ("set", a), ("map", a, b), ("list", ("opt", a)), ("opt", ("list", a)), ("list", ("list", a)), ("opt", ("map", a, b)), ("map", a, ("list", b))]))
    always += spelling_types()
    if ctx.tier == "quick":
        comp = rng.sample(comp, min(len(comp), 46))
        outside = rng.sample(outside, 6)
    out = []
    for t in base + always + comp + outside:
        if t not in out:
            out.append(t)
    return out


def run(ctx: Any) -> None:
    import pyarrow as pa

    import harness.c02_echo as H
    from translate import t_c02_values
    from vgi_rpc.http import http_connect
    from vgi_rpc.http._testing import make_sync_client
    from vgi_rpc.rpc import RpcServer, serve_pipe
    from vgi_rpc.utils import _infer_arrow_type

    translate(ctx)
    ctx.prove(
        ["prop/P_C02.vo", "tie/T_Values.vo", "refuted/R_C02.vo"],
        {
            "P_C02": [
                "C02_param_exact", "C02_result_exact", "C02_echo", "C02_accepts", "C02_none_refused_unless_optional",
                "C02_reject_or_exact", "C02_no_silent_change_partial", "C02_float64_bits", "C02_int_range_iff",
            ],
            "T_Values": ["convert_order_tie", "infer_order_tie", "type_map_tie", "result_schema_tie", "is_optional_tie", "C02_source_echo", "C02_source_accepts"],
        },
    )
    try:
        opt_first = t_c02_values.result_opt_first(ctx.repo / "vgi_rpc" / "rpc" / "_types.py")
    except Exception:  # noqa: BLE001 - translation obligation already broken; follow the unpatched shape
        opt_first = False
    of = "true" if opt_first else "false"
    rng = ctx.rng
    quick = ctx.tier == "quick"
    types = type_universe(ctx)
    spelled = set(spelling_types())
    ctx.rule = ("cases = annotation (all scalars at every Arrow width, temporal, decimal, enum, dataclass + generated Optional/list/"
                "frozenset/dict combinations to depth 3 + annotations outside the statement) x value (boundary-biased well-typed values, "
                "targeted ill-typed / unrepresentable values, a shared pool) x {argument passed, default passed, argument omitted} x "
                "{socket-family bytes, HTTP, pipe threads (subset)}; distinct by (annotation, value, mode); non-trivial = the value is not None")

    # ------------------------------------------------------------------ (0) inherited dataclass families, first thing in the process
    # A dataclass extending another serializable dataclass must be encoded with ITS OWN schema whatever was serialized before it:
    # family A is echoed parent, child, parent, sibling, grandchild, ...; family B leaf first.  Fixed values, no model cases.
    try:
        Pi, impl_i = H.build_inheritance_service()
        srv_i = RpcServer(Pi, impl_i)
        cli_i = make_sync_client(srv_i, token_key=b"k" * 32)
        with http_connect(Pi, client=cli_i, compression_level=None) as hp_i:
            for step, (cname, inst) in enumerate(H.inheritance_plan()):
                for meth in (cname, "opt_" + cname):
                    for transport, o in (("socket", H.call_socket(srv_i, srv_i._methods[meth], {"v": inst})), ("http", H.call_proxy(hp_i, meth, {"v": inst}))):
                        ctx.count("impl_runs")
                        ctx.tally("B:shape", "inherited-data")
                        ctx.case([meth, repr(inst), "inheritance", step], nontrivial=True)
                        repl = {"annotation": meth.replace("opt_", "") + (" | None" if meth.startswith("opt_") else ""), "value": repr(inst), "transport": transport,
                                "step": step, "order": [c for c, _ in H.inheritance_plan()][: step + 1], "outcome": o.brief(), "seen": repr(o.seen)[:300]}
                        if not o.ok:
                            ctx.violation("well-typed-value-rejected-inherited-dataclass", f"an instance of a dataclass subclass is refused ({o.where}: {o.err})", repl)
                        else:
                            if not (o.seen and H.exact_eq(inst, o.seen[0])):
                                ctx.violation("kwargs-differ-inherited-dataclass", "the implementation received a different instance (fields added by the subclass lost?)", repl)
                            if not H.exact_eq(inst, o.result):
                                ctx.violation("echo-differs-inherited-dataclass", "the echoed instance differs from the one passed (fields added by the subclass lost?)", repl)
    except Exception as e:  # noqa: BLE001
        ctx.violation("inherited-dataclass-service-failed", f"{type(e).__name__}: {e}", {"classes": list(H.FAMILY_A) + list(H.FAMILY_B)})

    # ------------------------------------------------------------------ (A) pyarrow alone
    cases_a: list[tuple[str, str]] = []
    info_a: list[Any] = []
    for t in types:
        try:
            at = _infer_arrow_type(H.ann_obj(t))
        except Exception as e:  # noqa: BLE001
            ctx.violation("annotation-refused-" + shape(t), f"_infer_arrow_type refuses {H.ann_src(t)}: {e}", {"annotation": H.ann_src(t)})
            continue
        n = H.norm(t)
        if t in spelled:
            vals = [H.gen_value(n, rng) for _ in range(2)] + targeted_ill(n, rng)[:4]
        else:
            vals = [H.gen_value(n, rng) for _ in range(3 if quick else 10)] + targeted_ill(n, rng) + rng.sample(H.ILL_POOL, 5 if quick else 25)
        for v in vals:
            if not H.encodable(v) or unsafe(n, v):
                continue
            try:
                r = pa.array([v], type=at)[0].as_py()
                out = f"(0%N, {H.coq_value(r)})" if H.encodable(r) else None
            except Exception:  # noqa: BLE001
                out = "(1%N, VNone)"
            if out is None:
                continue
            ctx.count("impl_runs")
            ctx.tally("A:type", shape(t).split("-")[0])
            cases_a.append((f"({of}, 0%N, {H.coq_ty(t)}, None, {H.coq_value(v)})", out))
            info_a.append((t, v, out))
    ok_a, bad_a, log_a = ctx.coq_mismatches(HEADER, "run_case", "case_eqb", cases_a, "bool * N * ty * option value * value", "N * value")
    ctx.count("model_cases", len(cases_a))
    ctx.obligation("env:pyarrow-conversion-model(M_Values.arrow_rt)", "environment", ok_a and not bad_a, log_a if not ok_a else f"{len(bad_a)} of {len(cases_a)} cells disagree")
    dis_a = []
    for i in bad_a[:8]:
        t, v, out = info_a[i]
        shown = ctx.coq_show(HEADER, f"run_case {cases_a[i][0]}")
        dis_a.append({"annotation": H.ann_src(t), "value": repr(v)[:300], "pyarrow": out[:300], "model": shown[-300:]})
    if dis_a:
        ctx.violation("pyarrow-model-disagree", "pyarrow converts differently from the model (environment fact, not a repository change)",
                      {"first": dis_a[0], "more": dis_a[1:], "total": len(bad_a)})

    # ------------------------------------------------------------------ (B) the echo path
    cases_b: list[tuple[str, str]] = []
    info_b: list[Any] = []
    keys_seen: set[str] = set()

    def enc_out(o: Any, which: int) -> str | None:
        if which == 1:
            if o.seen:
                return f"(0%N, {H.coq_value(o.seen[0])})" if H.encodable(o.seen[0]) else None
            return "(1%N, VNone)"
        if o.ok:
            return f"(0%N, {H.coq_value(o.result)})" if H.encodable(o.result) else None
        return "(1%N, VNone)"

    def oracle(t: tuple, v: Any, well: bool, o: Any, transport: str, mode: str) -> None:
        repl = {"annotation": H.ann_src(t), "value": repr(v)[:300], "transport": transport, "mode": mode, "outcome": o.brief(), "seen": repr(o.seen)[:300]}
        if o.where == "hang":
            ctx.violation("call-hangs-" + shape(t), "the call never returned", repl)
            return
        raw, t = t, H.norm(t)  # values are judged against the annotation's meaning, whatever its spelling
        if opt_inside_ann(raw):
            # Annotated[X | None, meta]: per the property an optional X.  Before e0af9e7 the framework did not see the marker inside
            # the wrapper (None refused; Enum / dict / frozenset values arrived unconverted; dataclasses refused): R_C02.v lemma 7.
            # Kept as its own check so that the finding is reported under its key if it ever returns; the ordinary oracle follows.
            # its signature: the call is refused, or what arrives is the unconverted wire form (another Python type than the value's)
            got = [o.seen[0]] if o.seen else []
            got += [o.result] if o.ok else []
            bad = well and (not o.ok or any(type(g) is not type(v) for g in got))
            if bad:
                ctx.violation("optional-marker-inside-annotated-not-recognised",
                              "Annotated[X | None, meta] is not treated as an optional X: " + ("refused" if not o.ok else "value arrives unconverted"), repl)
                return
        sup = supported(raw)
        if not sup:
            ctx.tally("outside-statement", f"{shape(raw)}:{'ok' if o.ok else 'reject'}:{'same' if o.ok and H.same_value(v, o.result, t) else 'changed' if o.ok else '-'}")
            return
        if well:
            if not o.ok:
                ctx.violation("well-typed-value-rejected-" + shape(raw), f"a value of the declared type is refused ({o.where}: {o.err})", repl)
            else:
                if not (o.seen and H.exact_eq(v, o.seen[0])):
                    sfx = ("dataclass-none-field-defaulted" if o.seen and H.none_field_defaulted(v, o.seen[0])
                           else "dataclass-enum" if o.seen and H.enum_field_differs(v, o.seen[0]) else shape(raw))
                    ctx.violation("kwargs-differ-" + sfx, "the implementation received a different value", repl)
                if not H.exact_eq(v, o.result):
                    sfx = "dataclass-none-field-defaulted" if H.none_field_defaulted(v, o.result) else "dataclass-enum" if H.enum_field_differs(v, o.result) else shape(raw)
                    ctx.violation("echo-differs-" + sfx, "the echoed value differs from the one passed", repl)
            return
        # not a value of the declared type (or not representable by it): rejected, or the same value arrives
        core = t[1] if t[0] == "opt" else t
        if core[0] == "data" and (isinstance(v, (bytes, bytearray)) or (isinstance(v, H.ArrowSerializableDataclass) and type(v) is not H.DATAS[core[1]])):
            # an instance (or the serialized bytes) of ANOTHER dataclass given for a dataclass parameter: deserialize_from_batch
            # fills columns the batch lacks from field defaults (schema evolution, by design), so a class whose fields all have
            # defaults accepts it as a default-filled instance.  An ill-typed call outside this property's reading: tallied only.
            if o.ok and not H.same_value(v, o.result, t):
                ctx.tally("outside-statement", f"foreign-dataclass-for-{shape(core)}:accepted-with-field-defaults")
            return
        for got, what in ([(o.seen[0], "kwargs")] if o.seen else []) + ([(o.result, "result")] if o.ok else []):
            if not H.same_value(v, got, t):
                key = lossy_class(t, v) or f"silent-change-{shape(raw)}-{type(v).__name__}"
                ctx.violation(key, f"a value the declared type cannot represent was accepted and changed ({what}: {got!r:.120})", repl)
                break

    batches = [types[i : i + 24] for i in range(0, len(types), 24)]
    pipe_budget = 40 if quick else 400
    for bi, batch in enumerate(batches):
        sigs = []
        plans = []
        for t in batch:
            n = H.norm(t)
            if t in spelled:  # the spelling dimension: a non-None value (always), None where the annotation is optional, few ill-typed ones
                base = n[1] if n[0] == "opt" else n
                well_vals = H.fixed_wells(base)[:2] + [H.gen_value(base, rng)] + ([None] if n[0] == "opt" else [])
                ill_vals = targeted_ill(n, rng)[:3]
                default = H.gen_value(base, rng)
            else:
                well_vals = H.fixed_wells(n) + [H.gen_value(n, rng) for _ in range(4 if quick else 14)]
                ill_vals = targeted_ill(n, rng) + rng.sample(H.ILL_POOL, 3 if quick else 20)
                default = H.gen_value(n, rng)
            sigs.append((t, False, None))
            sigs.append((t, True, default))
            plans.append((t, well_vals, ill_vals, default))
        try:
            P, impl, _ns = H.build_service(sigs)
            server = RpcServer(P, impl)
            client = make_sync_client(server, token_key=b"k" * 32)
        except Exception as e:  # noqa: BLE001
            ctx.violation("service-construction-failed", f"{type(e).__name__}: {e}", {"annotations": [H.ann_src(t) for t in batch]})
            continue
        methods = server._methods
        with http_connect(P, client=client, compression_level=None) as hproxy:
            for j, (t, well_vals, ill_vals, default) in enumerate(plans):
                calls: list[tuple[str, dict[str, Any], Any, bool, str]] = []
                for v in well_vals:
                    calls.append((f"m{2 * j}", {"v": v}, v, True, "passed"))
                for v in ill_vals:
                    calls.append((f"m{2 * j}", {"v": v}, v, False, "passed"))
                calls.append((f"m{2 * j + 1}", {"v": default}, default, True, "default-passed"))
                calls.append((f"m{2 * j + 1}", {}, default, True, "omitted"))
                n = H.norm(t)
                calls.append((f"m{2 * j}", {}, None, n[0] == "opt", "omitted-no-default"))
                for name, kwargs, v, well, mode in calls:
                    if unsafe(n, v):
                        continue
                    o_s = H.call_socket(server, methods[name], dict(kwargs))
                    o_h = H.call_proxy(hproxy, name, dict(kwargs))
                    ctx.count("impl_runs", 2)
                    ctx.tally("B:shape", shape(t).split("-")[0])
                    ctx.tally("B:mode", mode)
                    ctx.tally("B:outcome", "ok" if o_s.ok else "reject:" + o_s.where)
                    ctx.case([H.ann_src(t), repr(v), mode], nontrivial=v is not None)
                    oracle(t, v, well, o_s, "socket", mode)
                    oracle(t, v, well, o_h, "http", mode)
                    same = (o_s.ok == o_h.ok) and (not o_s.ok or H.exact_eq(o_s.result, o_h.result)) and len(o_s.seen) == len(o_h.seen) and all(H.exact_eq(a, b) for a, b in zip(o_s.seen, o_h.seen))
                    if not same:
                        ctx.violation("transports-differ-" + shape(t), "socket family and HTTP treat the same call differently",
                                      {"annotation": H.ann_src(t), "value": repr(v)[:300], "mode": mode, "socket": o_s.brief(), "http": o_h.brief()})
                    if not H.encodable(v) or model_skip(n, v):
                        continue
                    if not opt_first and n[0] == "opt" and n[1][0] == "data":
                        continue  # unrepaired _build_result_schema: a struct result column, unmodelled inside (even None may fail IPC validation)
                    if mode in ("passed", "default-passed"):
                        for which in (2, 1):
                            out = enc_out(o_s, which)
                            if out is not None:
                                cases_b.append((f"({of}, {which}%N, {H.coq_ty(t)}, None, {H.coq_value(v)})", out))
                                info_b.append((t, v, mode, which, o_s))
                    else:
                        out = enc_out(o_s, 2)
                        if out is not None:
                            d = "None" if mode == "omitted-no-default" else f"(Some {H.coq_value(default)})"
                            cases_b.append((f"({of}, 3%N, {H.coq_ty(t)}, {d}, VNone)", out))
                            info_b.append((t, v, mode, 3, o_s))
                    k = f"{shape(t)}|{mode}|{o_s.ok}"
                    if k not in keys_seen and len(keys_seen) < 400:
                        keys_seen.add(k)
                        if o_s.ok and v is not None and well:
                            ctx.sample({"annotation": H.ann_src(t), "value": repr(v)[:80], "mode": mode, "result": repr(o_s.result)[:80]})
        # real OS-level pipe + server thread for a subset (well-typed values of supported annotations)
        if pipe_budget > 0:
            try:
                with serve_pipe(P, impl) as pproxy:
                    for j, (t, well_vals, _ill, default) in enumerate(plans):
                        if pipe_budget <= 0 or not supported(t):
                            continue
                        v = well_vals[0]
                        o_p = H.call_proxy(pproxy, f"m{2 * j}", {"v": v}, timeout=30.0)
                        pipe_budget -= 1
                        ctx.count("impl_runs")
                        ctx.tally("B:pipe-thread", "ok" if o_p.ok else o_p.where)
                        oracle(t, v, True, o_p, "pipe-thread", "passed")
                        if not o_p.ok:
                            break  # the server thread may be gone: leave this connection
            except Exception as e:  # noqa: BLE001
                ctx.notes.append(f"serve_pipe batch {bi}: {type(e).__name__}: {e}")

    ok_b, bad_b, log_b = ctx.coq_mismatches(HEADER, "run_case", "case_eqb", cases_b, "bool * N * ty * option value * value", "N * value")
    ctx.count("model_cases", len(cases_b))
    ctx.obligation("correspondence:M_Values.run_case", "correspondence", ok_b and not bad_b, log_b if not ok_b else f"{len(bad_b)} of {len(cases_b)} cases disagree")
    disagreements = []
    for i in bad_b[:8]:
        t, v, mode, which, o = info_b[i]
        shown = ctx.coq_show(HEADER, f"run_case {cases_b[i][0]}")
        disagreements.append({"annotation": H.ann_src(t), "value": repr(v)[:300], "mode": mode, "which": which, "impl": o.brief(), "impl_seen": repr(o.seen)[:200], "model": shown[-300:]})
    if disagreements:
        ctx.violation("model-impl-disagree", "implementation and model decide differently", {"first": disagreements[0], "more": disagreements[1:], "total": len(bad_b)})
    ctx.assumptions += [
        "Arrow IPC stream write/read is the identity on (schema, batch) (pyarrow, trusted); every transport carries the same IPC bytes",
        "pa.array([v], type=t)[0].as_py() = M_Values.arrow_rt on the modelled cells (checked as environment obligation on every run); decimal128, struct columns, "
        "int/float given for temporal types, str/bytes iterated as lists, bytes<->str coercions are Unmodelled cells (oracle only)",
        "ArrowSerializableDataclass.serialize_to_bytes/deserialize_from_batch round-trip (C03) enters the theorems as hypothesis deser (ser d) = Some d",
        "time zones: only tz=None and tz='UTC' columns; datetime.fold and tz-aware datetime.time are not generated",
        "frozenset iteration order is abstracted: sets are compared extensionally",
        "socket-family = real client writer + RpcServer.serve_one over an in-memory PipeTransport + real client reader; OS pipes with a server thread for a subset",
    ]
