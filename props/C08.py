"""C08 Client log messages are delivered once, in order, robustly.

proof         : coq/prop/P_C08.v over model/M_WireLog.v (client_dispatch for arbitrary peer metadata, the emission
                sequence `emitted`, the relation `early`) and the shared wire core model/M_Wire.v (run_pipe, run_http);
                lemmas in proof/L_WireLog.v on top of L_Wire.pipe_refines and the HTTP lemmas of L_WireHttp.
regenerated   : _dispatch_log_or_error statement by statement (suppress classes, isinstance(dict) check, Level() guard,
                Message construction), the Level members, the parameters of Message.__init__, the three metadata keys
                -> gen/G_WireLog.v (translate/t_c08_dispatch.py); tie/T_WireLog.v proves gen_shape = repaired_shape and
                restates the robustness theorem over the regenerated shape.
refuted       : coq/refuted/R_C08.v -- (1) the dispatch before fixes/C08-peer-log-metadata-robust.diff crashes on extras
                named level/message/self, non-object JSON, unknown levels, oversized numerals; (2) a stream step / init
                that fails after logging loses those logs on every transport.  Every witness is replayed here.
correspondence: (A) hand-built peer batches (generated JSON text incl. duplicate and reserved keys, non-objects, broken
                JSON, non-UTF-8, oversized integers, deep nesting; known / unknown levels; data rows; missing keys) run
                through the real _dispatch_log_or_error and, end to end, through the real client against a scripted
                peer; outcomes vs `client_dispatch_sh gen_shape` in Coq.  (B) generated emission sequences (several
                logs per step, extras named like Message's parameters, non-string values, failing steps with and
                without logs) through the interpreter service on the real RpcServer over pipe and HTTP x cap; client
                traces vs run_pipe / run_http, the Python emission sequence vs `emitted`.
zero reads    : (C) a stream whose init succeeds after logging (all five non-EXCEPTION levels, extras incl. reserved
                names), on which the client takes NO batch and then calls close() / cancel() / leaves its `with` block
                (empty, or through its own exception), for producer / exchange x header-less / headered, over pipe, unix,
                tcp, shm-pipe and HTTP: every init log must reach on_log once, in order (keys
                init-logs-not-delivered-when-stream-ended-by-<how>-before-first-read); traces vs run_pipe / run_http.
post-emit logs: (D) steps that log before AND after out.emit*() through out.client_log / ctx.client_log /
                ctx.emit_client_log / out.emit_client_log_message (harness/c08_ext.py), producer and exchange, pipe and
                HTTP, inline vs externalised route (in-memory storage, threshold 0): same messages, once, in order
                (key logs-after-data-batch-dropped-on-externalised-route).  Not modelled in Coq (M_Wire steps log before
                the emit); oracle only.  HTTP exchange on the inline route loses the logs emitted after the data batch: finding
                key http-exchange-logs-after-data-batch-dropped, probed on every run.
oracle        : the property's own predicate on what the real code did: nothing but RpcError escapes a call whatever
                the peer sent, a known-level message is delivered with its members; delivered logs are an initial
                segment of the emitted ones (once, in order, level/text/extras equal), every returned data item is
                preceded by at least the logs emitted before it, a call run to its end has delivered every log.

Readings adopted:
  * "delivered ... before the result or batch it precedes is returned" bounds delivery from above only: HTTP parses the
    first response of a producer eagerly and delivers its logs before the header / first batches -- allowed (`early`).
  * "Every client-directed log message emitted during a call" includes messages a step emitted before it failed (unary
    methods do deliver them; stream steps and stream init do not: finding keys logs-of-failing-step-dropped,
    logs-of-failing-init-dropped).  If the statement is read as "messages of steps that completed", the code is right
    and these two keys are void -- reported to the coordinator as such.
  * extras are "preserved" up to the documented str() coercion of their values; the keys server_id / request_id are
    written by the framework from the batch's own metadata and are not compared.
  * level / message / id values that are not UTF-8 are outside the quantifier ("arbitrary JSON in the extra field").
  * an EXCEPTION-level batch is the error of the call, not a log message (RpcError is the intended outcome).
"""
from __future__ import annotations

import json
import time
from typing import Any

META = {
    "id": "C08",
    "technique": "Coq proof (dispatch totality over an inductive JSON value; emission sequence vs socket and HTTP models by induction over steps) + regenerated dispatch shape + differential correspondence",
    "level_text": "Coq theorems: for ALL peer metadata the dispatch hands on / delivers / ignores / raises RpcError and a "
    "known-level message is delivered with the members of its extra object; level, text and extras of an encoded message "
    "survive the wire for all keys; for ALL programs and scripts on the stated classes the socket observation is an initial "
    "segment of the emission sequence (equal to it when the call is run to its end) and the HTTP observation, for every cap, "
    "is the emission sequence with logs moved ahead of data items only. The dispatch facts are regenerated from the source on "
    "every run; the models are tied by running the real client on hand-built batches and the real server on generated programs.",
    "level_note": "Trusted: Coq kernel/vm_compute, t_c08_dispatch, the harness (JSON classification via json.loads with a pairs "
    "hook, Python str() of extra values). Below the model: Arrow IPC framing, UTF-8 decoding of level/message, json.loads itself.",
    "design_ref": "§5 C08",
}

COQ_LEVEL = {"EXCEPTION": "EXC", "ERROR": "ERR", "WARN": "WARN", "INFO": "INFO", "DEBUG": "DEBUG", "TRACE": "TRACE"}
KNOWN_LEVELS = ["ERROR", "WARN", "INFO", "DEBUG", "TRACE"]
UNKNOWN_LEVELS = ["NOTICE", "info", "", "WARNING", "FATAL", "Info ", "EXCEPTION ", "exception", "0", "ÉRROR"]

K_RESERVED = "extra-key-named-like-message-parameter-crashes-client"
K_NONOBJ = "non-object-json-extra-crashes-client"
K_LEVEL = "unknown-log-level-crashes-client"
K_PARSE = "unparseable-extra-crashes-client"
K_STEP = "logs-of-failing-step-dropped"
K_INIT = "logs-of-failing-init-dropped"


def translate(ctx: Any) -> None:
    from translate import t_c08_dispatch

    ctx.gen("G_WireLog", lambda: t_c08_dispatch.module(ctx.repo))


# --------------------------------------------------------------------------- Coq rendering (part A)
def c_json(v: Any) -> str:
    from harness.c08_peer import Pairs
    from vlib.coqterm import cbool, cstr

    if v is None:
        return "JNull"
    if isinstance(v, bool):
        return f"(JBool {cbool(v)})"
    if isinstance(v, (int, float)):
        return f"(JNum {cstr(str(v))})"
    if isinstance(v, str):
        return f"(JStr {cstr(v)})"
    if isinstance(v, Pairs):
        return "(JObj [" + "; ".join(f"({cstr(k)}, {c_json(x)})" for k, x in v) + "])"
    return "(JArr [" + "; ".join(c_json(x) for x in v) + "])"


def c_peer(case: dict[str, Any]) -> str:
    from vlib.coqterm import cN, cbool, copt, cstr

    kind, val = case["xclass"]
    x = "XAbsent" if kind == "absent" else (f"(XFail {val})" if kind == "fail" else f"(XJson {c_json(val)})")
    o = lambda b: copt(None if b is None else cstr(b.decode()))  # noqa: E731
    md = case["md"] or {}
    from harness.c08_peer import L_KEY, M_KEY, RID_KEY, SID_KEY

    return (f"{{| p_has_md := {cbool(case['md'] is not None)}; p_rows := {cN(case['rows'])}; p_level := {o(md.get(L_KEY))}; "
            f"p_message := {o(md.get(M_KEY))}; p_extra := {x}; p_server_id := {o(md.get(SID_KEY))}; p_request_id := {o(md.get(RID_KEY))} |}}")


def c_outcome(case: dict[str, Any], got: tuple[Any, ...]) -> str:
    """The implementation's outcome as a model term.  Extras come back str()-coerced; each is mapped to the LAST source
    value (document order, then the framework's ids) whose Python str equals it -- a wrong choice of the implementation
    therefore shows up as a different term (or as the impossible marker)."""
    from harness.c08_peer import L_KEY, RID_KEY, SID_KEY, Pairs, as_python
    from vlib.coqterm import copt, cstr

    kind, val = case["xclass"]
    members: list[tuple[str, Any]] = list(val) if kind == "json" and isinstance(val, Pairs) else []
    md = case["md"] or {}
    if got[0] == "notlog":
        return "NotLog"
    if got[0] == "ignore":
        return "Ignore"
    if got[0] == "crash":
        return f"(Crash {cstr(got[1])})"
    marker = f"(JStr {cstr('<no source value renders to this>')})"
    if got[0] == "rpcerror":
        cands = [x for k, x in members if k == "exception_type"]
        ty = None
        for x in cands:
            if str(as_python(x)) == got[1]:
                ty = c_json(x)
        if ty is None and not (not cands and got[1] == md.get(L_KEY, b"").decode()):
            ty = marker
        return f"(RaiseRpc {copt(ty)} {cstr(got[2])})"
    items = []
    for k, vs in got[3].items():
        cands = [x for kk, x in members if kk == k]
        if k == "server_id" and md.get(SID_KEY) is not None:
            cands.append(md[SID_KEY].decode())
        if k == "request_id" and md.get(RID_KEY):
            cands.append(md[RID_KEY].decode())
        term = marker
        for x in cands:
            if str(as_python(x)) == vs:
                term = c_json(x)
        items.append(f"({cstr(k)}, {term})")
    return f"(Deliver {COQ_LEVEL[got[1]]} {cstr(got[2])} [{'; '.join(items)}])"


# --------------------------------------------------------------------------- part A: cases
def peer_cases(ctx: Any) -> list[dict[str, Any]]:
    from harness.c08_peer import L_KEY, M_KEY, RID_KEY, SID_KEY, X_KEY, RESERVED, classify_extra, gen_json, gen_obj, to_text

    rng = ctx.rng
    out: list[dict[str, Any]] = []

    def add(level: bytes | None, msg: bytes | None, extra: bytes | None, sid: bytes | None = None, rid: bytes | None = None, rows: int = 0,
            has_md: bool = True, origin: str = "gen") -> None:
        md: dict[bytes, bytes] | None = None
        if has_md:
            md = {}
            for k, v in ((L_KEY, level), (M_KEY, msg), (X_KEY, extra), (SID_KEY, sid), (RID_KEY, rid)):
                if v is not None:
                    md[k] = v
        out.append({"md": md, "rows": rows, "xclass": classify_extra(extra if has_md else None), "origin": origin})

    # the witnesses of refuted/R_C08.v part 1 and the classes of DESIGN section 8
    for k in RESERVED:
        add(b"INFO", b"hello", json.dumps({k: "x"}).encode(), origin="witness")
    for raw in (b"[1,2]", b'"s"', b"null", b"12", b"true", b"NaN", b"1.5"):
        add(b"INFO", b"hello", raw, origin="witness")
    add(b"EXCEPTION", b"hello", b"[]", origin="witness")
    for lv in ("NOTICE", "info", ""):
        add(lv.encode(), b"hello", None, origin="witness")
    add(b"INFO", b"hello", b"1" + b"0" * 5000, origin="witness")
    add(b"INFO", b"hello", b'{"a":' + b"1" * 5000 + b"}", origin="witness")
    add(b"INFO", b"hello", b"\xff\xfe", origin="witness")
    add(b"INFO", b"hello", b"[" * 100000, origin="witness")
    add(b"INFO", b"hello", b"{bad", origin="witness")
    add(b"INFO", b"hello", b"", origin="witness")
    # every arm of the dispatch
    add(None, None, None, has_md=False)
    add(b"INFO", b"m", None, rows=2)
    add(b"INFO", None, None)
    add(None, b"m", None)
    add(b"EXCEPTION", b"boom", json.dumps({"exception_type": "ValueError", "traceback": "tb"}).encode(), rid=b"r1")
    add(b"EXCEPTION", b"boom", json.dumps({"exception_type": 17}).encode())
    add(b"EXCEPTION", b"boom", None)
    add(b"WARN", b"m", b'{"server_id": "mine", "request_id": "mine"}', sid=b"srv", rid=b"req")
    add(b"WARN", b"m", b'{"server_id": "mine"}', rid=b"")
    n = 2500 if ctx.tier == "thorough" else 420
    for _ in range(n):
        r = rng.random()
        level = rng.choice(KNOWN_LEVELS) if r < 0.62 else ("EXCEPTION" if r < 0.72 else rng.choice(UNKNOWN_LEVELS))
        msg = rng.choice(["", "m", "héllo ☃", "l1\nl2", "x" * 40, "INFO"])
        xr = rng.random()
        if xr < 0.12:
            extra = None
        elif xr < 0.62:
            extra = to_text(gen_obj(rng, 3)).encode()
        elif xr < 0.8:
            extra = to_text(gen_json(rng, 3)).encode()
        elif xr < 0.9:
            t = to_text(gen_obj(rng, 2))
            cut = rng.randrange(len(t) + 1)
            extra = (t[:cut] + rng.choice(["", "}", ",", "\x00", "'"]) + t[cut + rng.randrange(3):]).encode()
        else:
            extra = rng.choice([b"\xff", b'{"a": "\xc3"}', b"9" * 4400, b'{"k": [' + b"8" * 4301 + b"]}", b"-", b" ", b"{}", b"[]", b'{"a":1}x'])
        sid = rng.choice([None, None, b"srv-1", b""])
        rid = rng.choice([None, None, b"req-9", b""])
        rows = 0 if rng.random() < 0.95 else rng.choice([1, 3])
        lb: bytes | None = level.encode()
        mb: bytes | None = msg.encode()
        if rng.random() < 0.03:
            lb = None
        if rng.random() < 0.03:
            mb = None
        add(lb, mb, extra, sid, rid, rows)
    return out


def crash_key(case: dict[str, Any], cls: str) -> str:
    from harness.c08_peer import L_KEY, RESERVED, Pairs

    kind, val = case["xclass"]
    level = (case["md"] or {}).get(L_KEY, b"").decode()
    if kind == "fail" and cls in ("ValueError", "UnicodeDecodeError", "RecursionError", "JSONDecodeError"):
        return K_PARSE
    if kind == "json" and not isinstance(val, Pairs) and cls == "AttributeError":
        return K_NONOBJ
    if cls == "ValueError" and level not in COQ_LEVEL:
        return K_LEVEL
    if cls == "TypeError" and kind == "json" and isinstance(val, Pairs) and any(k in RESERVED for k, _ in val):
        return K_RESERVED
    return f"peer-log-metadata-crashes-client:{cls}"


# --------------------------------------------------------------------------- part B: emission sequences
EXCS = ["ValueError", "RuntimeError", "KeyError", "InterpUserError", "InterpKindError"]


def gen_log(rng: Any) -> list[Any]:
    lvl = rng.choice(KNOWN_LEVELS)
    msg = rng.choice(["m", "", "héllo ☃", "l1\nl2", "log"]) + str(rng.randrange(1000))
    extra: dict[str, Any] = {}
    if rng.random() < 0.6:
        for _ in range(rng.randrange(1, 4)):
            extra[rng.choice(["k", "level", "message", "self", "detail", "n_rows", "kwargs", "extra", "ünï"])] = rng.choice(["v", "", "7", "ü", "INFO", 42, True, None, 1.5])
    return [lvl, msg, extra]


def gen_logs(rng: Any) -> list[Any]:
    return [gen_log(rng) for _ in range(rng.choice([0, 1, 1, 2, 3, 4]))]


def gen_step(rng: Any, kind: str) -> dict[str, Any]:
    rows = rng.choice([0, 1, 1, 3, 50])
    st = {"logs": gen_logs(rng), "emit": {"rows": rows, "meta": None if rng.random() < 0.7 else {"k": "v"}}, "finish": False, "raise": None}
    if kind == "raise":
        st["raise"] = [rng.choice(EXCS), rng.choice(["boom", "", "two\nlines"])]
        if rng.random() < 0.5:
            st["emit"] = None
        if rng.random() < 0.35:
            st["logs"] = []
    elif kind == "finish":
        st["emit"], st["finish"] = None, True
    elif kind == "emit_finish":
        st["finish"] = True
    elif kind == "logonly":
        st["emit"] = None
    return st


def gen_program(rng: Any) -> tuple[str, dict[str, Any]]:
    kind = rng.choices(["unary", "producer", "exchange"], [15, 50, 35])[0]
    if kind == "unary":
        res = {"ok": rng.choice([0, 1, -5, 2**40])} if rng.random() < 0.6 else {"raise": [rng.choice(EXCS), "boom"]}
        return kind, {"logs": gen_logs(rng), "result": res}
    n = rng.choice([0, 1, 2, 3, 4, 6])
    steps = [gen_step(rng, rng.choices(["emit", "raise", "finish", "emit_finish", "logonly"], [78, 6, 6, 6, 4])[0]) for _ in range(n)]
    prog = {"init_logs": gen_logs(rng), "init": "ok", "header": rng.randrange(-3, 100), "steps": steps}
    if rng.random() < 0.12:
        prog["init"] = {"raise": [rng.choice(EXCS), "init boom"]}
        if rng.random() < 0.3:
            prog["init_logs"] = []
    return kind, prog


def gen_script(rng: Any, kind: str, prog: dict[str, Any]) -> list[Any]:
    if kind == "unary":
        return ["unary"]
    n = len(prog["steps"])
    h = rng.random() < 0.4
    k = rng.choice([0, 0, 1, 2, n, n + 1])
    if kind == "producer":
        after = "stop" if rng.random() < 0.6 else rng.choice(["close", "cancel"])
        return ["iterate", "producer_h" if h else "producer", None, k, after]
    return ["exchange", "exchange_h" if h else "exchange", None, k, rng.choice(["close", "cancel"])]


def wire_value(v: Any) -> str:
    """What the client reports for an emitted extra value: str() of its JSON round trip."""
    return str(json.loads(json.dumps(v)))


def stringify(kind: str, prog: dict[str, Any]) -> dict[str, Any]:
    """The program with every extra value as the client will see it (M_Wire's logmsg carries strings)."""
    fix = lambda logs: [[l[0], l[1], {k: wire_value(v) for k, v in (l[2] or {}).items()}] for l in logs]  # noqa: E731
    if kind == "unary":
        return {**prog, "logs": fix(prog["logs"])}
    return {**prog, "init_logs": fix(prog["init_logs"]), "steps": [{**st, "logs": fix(st["logs"])} for st in prog["steps"]]}


def py_emitted(kind: str, prog: dict[str, Any], sc: list[Any]) -> tuple[list[list[Any]], str | None, list[list[Any]]]:
    """Third transcription (Python) of the emission sequence of a stringified program; also where a failure that was
    preceded by logs of the same step sits ("init" / "step" / None)."""
    from harness.interp import exc_text

    def logs(ls: list[Any]) -> list[list[Any]]:
        return [["log", l[0], l[1], dict(l[2] or {})] for l in ls]

    def err(e: list[str]) -> list[Any]:
        return ["error", e[0], f"{e[0]}: {exc_text(e[0], e[1])}"]

    E: list[list[Any]] = []
    if kind == "unary":
        E += logs(prog["logs"])
        r = prog["result"]
        E.append(["result", r["ok"]] if "ok" in r else err(r["raise"]))
        return E, None, []
    E += logs(prog["init_logs"])
    if prog["init"] != "ok":
        E.append(err(prog["init"]["raise"]))
        return E, ("init" if prog["init_logs"] else None), logs(prog["init_logs"])
    if sc[1].endswith("_h"):
        E.append(["header", prog["header"]])
    producer = kind == "producer"
    steps = prog["steps"]
    count = len(steps) if producer else sc[3]
    for i in range(count):
        st = steps[i] if i < len(steps) else None
        if st is None:
            E.append(["batch", 0, None, None])
            continue
        E += logs(st["logs"])
        lossy = "step" if st["logs"] else None
        if st["finish"] and not producer:
            E.append(["error", "RuntimeError", "RuntimeError: finish() is not allowed on exchange streams; exchange streams must emit exactly one data batch per call"])
            return E, lossy, logs(st["logs"])
        if st["raise"]:
            E.append(err(st["raise"]))
            return E, lossy, logs(st["logs"])
        em = st["emit"]
        if em is not None:
            E.append(["batch", em["rows"], em["meta"] or None, i if em["rows"] else None])
        if st["finish"]:
            E.append(["done"])
            return E, None, []
        if em is None:
            E.append(["error", "RuntimeError", "RuntimeError: No data batch was emitted"])
            return E, lossy, logs(st["logs"])
    if producer:
        E.append(["done"])
    return E, None, []


def check_trace(E: list[list[Any]], T: list[list[Any]], kind: str, sc: list[Any], closed_after_init: int | None = None) -> tuple[str | None, str]:
    """The property's predicate on one observed trace.  Returns (problem-class | None, detail).

    closed_after_init = n: the init method succeeded after emitting n logs and the client ended the stream itself with
    close() / cancel() / leaving its ``with`` block -- the call is over, so at least those n messages (emitted before
    anything the client could have read) must have reached on_log, however few batches the client took."""
    is_log = lambda e: e[0] == "log"  # noqa: E731
    is_data = lambda e: e[0] in ("result", "header", "batch")  # noqa: E731
    lt, le = [e for e in T if is_log(e)], [e for e in E if is_log(e)]
    if lt != le[: len(lt)]:
        return "order", f"delivered logs are not an initial segment of the emitted ones: {lt[:4]} vs {le[:4]}"
    dt, de = [e for e in T if is_data(e)], [e for e in E if is_data(e)]
    if dt != de[: len(dt)]:
        return "data", "returned data items are not an initial segment of the emitted ones (C01's business)"
    # before: at the j-th data item of T at least the logs emitted before the j-th data item of E are delivered
    def counts(tr: list[list[Any]]) -> list[int]:
        n, out = 0, []
        for e in tr:
            if is_log(e):
                n += 1
            elif is_data(e):
                out.append(n)
        return out
    for j, (a, b) in enumerate(zip(counts(E), counts(T))):
        if b < a:
            return "late", f"data item {j} was returned after {b} logs, {a} had been emitted before it"
    last = T[-1] if T else None
    if closed_after_init is not None and (last is None or last[0] not in ("error", "cb_raised", "client_exc", "blocked")) and len(lt) < closed_after_init:
        return "init-lost", f"the stream was ended by the client after {len(dt)} data item(s); {closed_after_init - len(lt)} of the {closed_after_init} log(s) its init emitted never reached on_log"
    # none lost: the call ran to its end
    ended = last is not None and (last[0] in ("done", "result") or (last[0] == "error" and last == E[-1]) or (kind == "exchange" and len(dt) == len(de)))
    if ended and lt != le:
        return "lost", f"{len(le) - len(lt)} emitted log(s) never delivered although the call ended with {last}"
    return None, ""


def run(ctx: Any) -> None:
    translate(ctx)
    translated = bool(ctx.obligations and ctx.obligations[-1]["ok"])
    ctx.prove(
        ["prop/P_C08.vo", "refuted/R_C08.vo"],
        {
            "P_C08": ["C08_pipe_once_in_order_partial", "C08_pipe_none_lost_partial", "C08_http_once_in_order_partial", "C08_pipe_init_logs_delivered",
                      "C08_http_init_logs_delivered", "C08_early_meaning",
                      "C08_robust", "C08_never_crashes", "C08_peer_message_delivered", "C08_roundtrip_preserved"],
        },
    )
    # the tie is built separately: on a tree whose dispatch has another shape only the tie breaks, the theorems about the model stand
    ctx.prove(["tie/T_WireLog.vo"], {"T_WireLog": ["dispatch_shape_tie", "log_keys_tie", "C08_source_never_crashes"]})
    thorough = ctx.tier == "thorough"
    from harness import c08_peer as P
    from harness import interp as I

    # the HTTP client dispatches through the same function (one model for both client families)
    src = (ctx.repo / "vgi_rpc" / "http" / "_client.py").read_text()
    n_sites = src.count("_dispatch_log_or_error(")
    own = [ln for ln in src.splitlines() if "Level(" in ln or "log_extra" in ln.lower() and "json.loads" in ln]
    ctx.obligation("source:http-client-uses-the-shared-dispatch", "environment", n_sites >= 5 and not own,
                   f"{n_sites} call sites of _dispatch_log_or_error in http/_client.py; own level/extra parsing lines: {own[:2]}")

    # ======================================================================= part A
    ctx.rule = ("A: case = one received batch (has-metadata, rows, level, message, log_extra bytes, server_id, request_id) run through the real "
                "_dispatch_log_or_error and (zero-row log batches) through a complete unary call of the real client against a scripted peer; "
                "B: case = (program, script incl. zero reads then close/cancel) through the interpreter service over pipe and HTTP x cap; "
                "D: case = (steps with logs before/after the data batch, method, transport, inline|externalised route); C: case = (init logs, method, zero reads, close|cancel|with|with_raise, transport in pipe/unix/tcp/shm_pipe/http); distinct by canonical JSON; "
                "non-trivial = A: a zero-row batch with both log keys, B: a program that emits at least one log")
    cases = peer_cases(ctx)
    t0 = time.time()
    model_a: list[tuple[str, str]] = []
    for ci, c in enumerate(cases):
        md = c["md"]
        got = P.dispatch_direct(md, c["rows"])
        ctx.count("impl_runs")
        is_logbatch = md is not None and c["rows"] == 0 and P.L_KEY in md and P.M_KEY in md
        ctx.case([None if md is None else sorted((k.hex(), v.hex()[:200], len(v)) for k, v in md.items()), c["rows"]], nontrivial=is_logbatch)
        ctx.tally("A.extra", c["xclass"][0] + (":" + c["xclass"][1] if c["xclass"][0] == "fail" else (":object" if isinstance(c["xclass"][1], P.Pairs) else (":non-object" if c["xclass"][0] == "json" else ""))))
        ctx.tally("A.level", "absent" if md is None or P.L_KEY not in md else ("EXCEPTION" if md[P.L_KEY] == b"EXCEPTION" else ("known" if md[P.L_KEY].decode() in COQ_LEVEL else "unknown")))
        ctx.tally("A.outcome", got[0] + (":" + got[1] if got[0] == "crash" else ""))
        repl = {"metadata": None if md is None else {k.decode(): (v[:300].decode("latin-1") + ("…" if len(v) > 300 else "")) for k, v in md.items()}, "rows": c["rows"]}
        # ---- oracle: deliver / ignore / RpcError, never another exception
        if got[0] == "crash":
            ctx.violation(crash_key(c, got[1]), f"{got[1]} escapes _dispatch_log_or_error for metadata a peer can send", {**repl, "exception": got[1]})
        if got[0] == "deliver" and c["xclass"][0] == "json" and isinstance(c["xclass"][1], P.Pairs):
            want = {k: str(v) for k, v in P.as_python(c["xclass"][1]).items()}
            if md.get(P.SID_KEY) is not None:
                want["server_id"] = md[P.SID_KEY].decode()
            if md.get(P.RID_KEY):
                want["request_id"] = md[P.RID_KEY].decode()
            if got[3] != want or got[1] != md[P.L_KEY].decode() or got[2] != md[P.M_KEY].decode():
                ctx.violation("delivered-message-differs-from-peer-message", "level / text / extra members of a delivered peer message differ from what was sent",
                              {**repl, "delivered": [got[1], got[2], got[3]], "expected_extras": want})
        if is_logbatch and md[P.L_KEY].decode() in KNOWN_LEVELS and got[0] not in ("deliver", "crash"):
            ctx.violation("known-level-message-not-delivered", "a zero-row batch with a known level and a message was not delivered", {**repl, "outcome": got[0]})
        # ---- end to end through the real client (every witness, a sample of the rest)
        if is_logbatch and (c["origin"] == "witness" or ci % (2 if thorough else 4) == 0):
            e2e = P.call_through_client([md])
            ctx.count("impl_runs")
            same = ((got[0] == "crash" and e2e[0] == "crash" and e2e[1] == got[1]) or (got[0] == "rpcerror" and e2e[0] == "rpcerror" and tuple(e2e[1:3]) == tuple(got[1:3]))
                    or (got[0] == "ignore" and e2e[0] == "ok" and e2e[1] == 7 and e2e[2] == [])
                    or (got[0] == "deliver" and e2e[0] == "ok" and e2e[1] == 7 and e2e[2] == [(got[1], got[2], got[3])]))
            if not same:
                ctx.violation("client-call-differs-from-dispatch", "a complete client call does not do what the dispatch of its single log batch does", {**repl, "dispatch": list(got)[:3], "call": [str(x)[:200] for x in e2e]})
            if e2e[0] == "crash":
                ctx.violation(crash_key(c, e2e[1]), f"{e2e[1]} escapes the client call for metadata a peer can send", {**repl, "exception": e2e[1], "text": e2e[2]})
        model_a.append((c_peer(c), c_outcome(c, got)))
    ctx.log(f"part A: {len(cases)} batches in {time.time() - t0:.1f}s")
    ctx.sample({"A": {"level": "INFO", "log_extra": '{"level": "x"}', "repaired": "delivered with extra level=x", "before": "TypeError"}})
    shape = "gen_shape" if translated else "repaired_shape"
    header_a = ("From Coq Require Import List NArith ZArith Bool.\nFrom VGI Require Import Corr M_Wire M_WireLog" + (" G_WireLog" if translated else "")
                + ".\nImport ListNotations.\nOpen Scope N_scope.\n" + f"Definition rc (md : peer_md) : outcome := run_case {shape} md.\n")
    ok_a, bad_a, log_a = ctx.coq_mismatches(header_a, "rc", "outcome_eqb", model_a, "peer_md", "outcome", shard=120)
    ctx.obligation("correspondence:M_WireLog.client_dispatch_sh", "correspondence", ok_a and not bad_a, log_a if not ok_a else f"{len(bad_a)} of {len(model_a)} batches disagree")
    for i in bad_a[:3]:
        shown = ctx.coq_show(header_a, f"rc {model_a[i][0]}")
        ctx.violation("model-impl-disagree:client_dispatch", "implementation and model dispatch a received batch differently",
                      {"input": model_a[i][0][:2000], "impl": model_a[i][1][:1500], "model": shown[-1200:]})

    # ======================================================================= part B
    from props.C01 import BIG, HEADER, c_cap, c_prog, c_script, c_trace, norm, over_hard_cap

    P.install_message_emitter()
    rng = ctx.rng
    _ok = {"logs": [], "emit": {"rows": 1, "meta": None}, "finish": False, "raise": None}
    wlog = ["WARN", "about to fail", {}]
    fixed: list[tuple[str, dict[str, Any], list[Any]]] = [
        ("producer", {"init_logs": [], "init": "ok", "header": 0, "steps": [{"logs": [wlog], "emit": None, "finish": False, "raise": ["ValueError", "boom"]}]}, ["iterate", "producer", None, 0, "stop"]),
        ("exchange", {"init_logs": [], "init": "ok", "header": 0, "steps": [{"logs": [wlog], "emit": None, "finish": False, "raise": ["ValueError", "boom"]}]}, ["exchange", "exchange", None, 1, "close"]),
        ("producer", {"init_logs": [["WARN", "opening", {}]], "init": {"raise": ["ValueError", "boom"]}, "header": 1, "steps": []}, ["iterate", "producer_h", None, 0, "stop"]),
        ("unary", {"logs": [wlog], "result": {"raise": ["ValueError", "boom"]}}, ["unary"]),
        ("unary", {"logs": [["INFO", "t", {"level": "x", "message": "y", "self": "z", "n": 42}]], "result": {"ok": 1}}, ["unary"]),
        ("producer", {"init_logs": [["INFO", "i", {"level": "x"}]], "init": "ok", "header": 7, "steps": [
            {**_ok, "logs": [["DEBUG", "s0", {"message": "m", "k": "v"}]]}, {**_ok, "logs": [["WARN", "s1a", {}], ["ERROR", "s1b", {}]]},
            {"logs": [["TRACE", "end", {}]], "emit": None, "finish": True, "raise": None}]}, ["iterate", "producer_h", None, 0, "stop"]),
    ]
    progs: list[dict[str, Any]] = []
    pid = 8000
    for kind, prog, sc in fixed:
        pid += 1
        progs.append({"pid": pid, "kind": kind, "prog": prog, "script": sc, "fixed": True})
    for _ in range(400 if thorough else 48):
        pid += 1
        kind, prog = gen_program(rng)
        progs.append({"pid": pid, "kind": kind, "prog": prog, "script": gen_script(rng, kind, prog), "fixed": False})
    for c in progs:
        I.register(c["pid"], c["prog"])
        s0 = c["script"]
        c["script"] = [s0[0], c["pid"]] if s0[0] == "unary" else [s0[0], s0[1], c["pid"], s0[3], s0[4]]
    caps: list[int | None] = [None, BIG, 1200]
    m_pipe: list[tuple[str, str]] = []
    m_http: list[tuple[str, str]] = []
    m_em: list[tuple[str, str]] = []
    m_ll: list[tuple[str, str]] = []
    t0 = time.time()
    for c in progs:
        kind, prog, sc = c["kind"], c["prog"], c["script"]
        sprog = stringify(kind, prog)
        E, lossy, lossy_logs = py_emitted(kind, sprog, sc)
        n_logs = sum(1 for e in E if e[0] == "log")
        ctx.case([prog, sc[0], sc[1:2] if kind != "unary" else [], sc[3:]], nontrivial=n_logs > 0)
        ctx.tally("B.kind", kind)
        ctx.tally("B.logs_emitted", min(n_logs, 8))
        ctx.tally("B.failure_after_logs", str(lossy))
        ctx.tally("B.reserved_key_emitted", any(k in ("level", "message", "self") for e in E if e[0] == "log" for k in e[3]))
        traces: dict[str, list[Any]] = {"pipe": norm(I.run_case("pipe", None, sc, timeout=8.0))}
        for cap in caps:
            traces[f"http:{cap}"] = norm(I.run_case("http", {"max_response_bytes": cap}, sc, timeout=8.0))
        ctx.count("impl_runs", 1 + len(caps))
        ps = f"({c_prog(kind, sprog)}, {c_script(sc, 'record')})"
        # a trace in which a non-RpcError escaped the client has no counterpart in M_Wire (no such event): it is a violation
        # below, not a correspondence case
        crashed = lambda tr: any(e[0] == "client_exc" for e in tr)  # noqa: E731
        if not crashed(traces["pipe"]):
            m_pipe.append((ps, c_trace(traces["pipe"])))
        for cap in caps:
            if cap != 1200 and not crashed(traces[f"http:{cap}"]):
                m_http.append((f"({c_cap(cap)}, {ps})", c_trace(traces[f"http:{cap}"])))
        m_em.append((ps, c_trace(E)))
        m_ll.append((ps, "false" if lossy else "true"))
        for tname, T in traces.items():
            repl = {"program": prog, "script": sc, "transport": tname, "trace": T, "emitted": E}
            crash = next((e for e in T if e[0] == "client_exc"), None)
            if crash is not None:
                key = K_RESERVED if crash[1] == "TypeError" and "multiple values" in crash[2] else f"emitted-log-crashes-client:{crash[1]}"
                ctx.violation(key, f"{crash[1]} escapes the client call while it reads log messages the server emitted", repl)
                continue
            if any(e[0] == "blocked" for e in T):
                ctx.violation("client-blocked", "the client did not return", repl)
                continue
            if tname != "pipe" and over_hard_cap(kind, {"max_response_bytes": 1200 if tname.endswith("1200") else None}, T):
                ctx.tally("B.excluded", "unary-or-exchange-over-hard-cap")
                continue
            n_init = len(sprog["init_logs"]) if kind != "unary" and prog["init"] == "ok" and sc[4] in ("close", "cancel") else None
            problem, detail = check_trace(E, T, kind, sc, n_init)
            ctx.tally("B.oracle", str(problem))
            if problem == "init-lost":
                ctx.violation(f"init-logs-not-delivered-when-stream-ended-by-{sc[4]}", detail, repl)
                continue
            if problem is None:
                if c["fixed"] and lossy:
                    ctx.notes.append(f"witness for logs-of-failing-{lossy}-dropped no longer reproduces on {tname}")
                continue
            if problem == "data":
                ctx.tally("B.excluded", "data-items-differ (C01 findings)")
                continue
            if problem == "lost" and lossy is not None and T[-1] == E[-1]:
                # exactly the logs of the failing step / init are missing?
                lt = [e for e in T if e[0] == "log"]
                le = [e for e in E if e[0] == "log"]
                if lossy_logs == le[len(lt):]:
                    ctx.violation(K_INIT if lossy == "init" else K_STEP,
                                  "a stream " + ("init method" if lossy == "init" else "step") + " that fails after emitting client logs: the logs are dropped (a unary method delivers them)", repl)
                    continue
            ctx.violation(f"log-delivery:{problem}", detail, repl)
        c["pipe"] = traces["pipe"]
    ctx.log(f"part B: {len(progs)} programs x {1 + len(caps)} transports in {time.time() - t0:.1f}s")

    # ======================================================================= part C: zero reads, then the client ends the stream
    # A stream whose init SUCCEEDS after logging, on which the client takes no batch and then calls close() / cancel() /
    # leaves its `with` block (empty body, or through an exception of its own).  Header-less: the init logs open the output
    # stream and only the close/cancel drain can deliver them; headered: they ride the header stream.
    t0 = time.time()
    init_sets = [
        [["INFO", "opened", {}]],
        [[lv, f"init {lv}", {"k": "v"}] for lv in KNOWN_LEVELS],
        [["WARN", "w", {"level": "x", "message": "y", "self": "z", "n": 42}], ["DEBUG", "", {}], ["TRACE", "héllo ☃\nl2", {"ünï": "ü"}]],
    ] + [[gen_log(rng) for _ in range(rng.randrange(1, 5))] for _ in range(6 if thorough else 2)]
    zprogs = []
    for il in init_sets:
        pid += 1
        zp = {"init_logs": il, "init": "ok", "header": 5, "steps": [{"logs": [["ERROR", "step0", {}]], "emit": {"rows": 1, "meta": None}, "finish": False, "raise": None}]}
        I.register(pid, zp)
        zprogs.append((pid, zp))
    ztransports: list[tuple[str, dict[str, Any] | None]] = [("pipe", None), ("unix", None), ("tcp", None), ("shm_pipe", None), ("http", {"max_response_bytes": None}), ("http", {"max_response_bytes": BIG})]
    n_c = 0
    for zpid, zp in zprogs:
        szp = stringify("producer", zp)
        want = [["log", *l] for l in szp["init_logs"]]
        for method in ("producer", "producer_h", "exchange", "exchange_h"):
            zkind = I.METHOD_KIND[method]
            for how in ("close", "cancel", "with", "with_raise"):
                sc_model = ["iterate" if zkind == "producer" else "exchange", method, zpid, 0, "cancel" if how == "cancel" else "close"]
                E, _, _ = py_emitted(zkind, szp, sc_model)
                for tkind, tcfg in ztransports:
                    T = norm(P.run_zero_reads(tkind, tcfg, method, zpid, how, timeout=8.0))
                    n_c += 1
                    ctx.count("impl_runs")
                    tname = tkind if tcfg is None else f"http:{tcfg['max_response_bytes']}"
                    ctx.case(["C", zp["init_logs"], method, how, tname])
                    ctx.tally("C.how", how)
                    ctx.tally("C.transport", tname)
                    ctx.tally("C.method", method)
                    repl = {"program": zp, "method": method, "reads": 0, "then": how, "transport": tname, "trace": T, "init_logs_emitted": want}
                    bad_ev = next((e for e in T if e[0] in ("client_exc", "blocked", "error")), None)
                    if bad_ev is not None:
                        ctx.violation(f"zero-read-stream-{how}-fails:{bad_ev[0]}", f"ending a freshly opened stream with {how} produced {bad_ev}", repl)
                        continue
                    problem, detail = check_trace(E, T, zkind, sc_model, len(want))
                    ctx.tally("C.oracle", str(problem))
                    if problem == "init-lost":
                        ctx.violation(f"init-logs-not-delivered-when-stream-ended-by-{how}-before-first-read", detail, repl)
                    elif problem is not None and problem != "data":
                        ctx.violation(f"log-delivery:{problem}", detail, repl)
                    # the model: close / `with` exit = AClose, cancel = ACancel, zero reads
                    if how in ("close", "cancel"):
                        ps = f"({c_prog(zkind, szp)}, {c_script(sc_model, 'record')})"
                        if tkind == "pipe":
                            m_pipe.append((ps, c_trace(T)))
                        elif tkind == "http":
                            m_http.append((f"({c_cap(tcfg['max_response_bytes'])}, {ps})", c_trace(T)))
                    elif tkind == "pipe":
                        ps = f"({c_prog(zkind, szp)}, {c_script(sc_model, 'record')})"
                        m_pipe.append((ps, c_trace(T)))     # leaving a `with` block is close() (StreamSession.__exit__)
    ctx.log(f"part C: {n_c} zero-read runs in {time.time() - t0:.1f}s")
    ctx.sample({"C": {"init_logs": zprogs[0][1]["init_logs"], "method": "producer", "reads": 0, "then": "with", "expected": "on_log called once per init log, in order"}})
    for smp in progs[len(fixed):len(fixed) + 3]:
        ctx.sample({"B": {"program": smp["prog"], "script": smp["script"], "pipe_trace": smp.get("pipe")}})
    # ======================================================================= part D: logs on both sides of the data batch, externalised route
    # A step may log AFTER out.emit*(): those batches follow the data batch in the step's collector.  With an
    # ExternalLocationConfig (threshold 0) the whole collector is uploaded as one IPC stream and replaced by a pointer batch;
    # the client dispatches the logs of the fetched stream.  Oracle as everywhere (every message once, in order), plus: the
    # externalised route delivers the same messages as the inline route.  No EXCEPTION-level logs (C30 owns
    # exception-log-after-data-drops-the-externalised-batch).  HTTP exchange on the INLINE route is probed on every run (the
    # first program is fixed): the client reads an exchange response only up to its data batch, so ordinary logs emitted
    # after out.emit() are not delivered there -- finding key http-exchange-logs-after-data-batch-dropped (same root cause
    # as C30's http-exchange-batches-after-the-data-batch-reach-the-client-only-when-externalised).
    from harness import c08_ext as X

    t0 = time.time()
    chans = ["out", "ctx", "msg", "outmsg"]

    def xlog(tag: str) -> list[Any]:
        ch = rng.choice(chans)
        keys = ["k", "detail", "n_rows"] + (["level", "message", "self"] if ch in ("msg", "outmsg") else [])
        extra = {rng.choice(keys): rng.choice(["v", "", "7", "ü"]) for _ in range(rng.choice([0, 0, 1, 2]))}
        return [rng.choice(KNOWN_LEVELS), f"{tag}-{ch}-{rng.randrange(1000)}", extra, ch]

    xprogs: list[dict[str, Any]] = [
        {"steps": [{"pre": [["INFO", "before 0", {"step": "0"}, "out"]], "rows": 200, "post": [["WARN", "after 0", {"rows": "200"}, "out"], ["DEBUG", "ctx-after 0", {}, "ctx"], ["TRACE", "msg-after 0", {"level": "x"}, "msg"], ["ERROR", "outmsg-after 0", {}, "outmsg"]]},
                   {"pre": [], "rows": 1, "post": [["INFO", "after 1", {}, "ctx"]]}]},
    ]
    for _ in range(24 if thorough else 3):
        xprogs.append({"steps": [{"pre": [xlog("pre") for _ in range(rng.choice([0, 1, 2]))], "rows": rng.choice([0, 1, 50, 400]),
                                  "post": [xlog("post") for _ in range(rng.choice([1, 1, 2, 3]))]} for _ in range(rng.choice([1, 2, 3]))]})
    n_d = 0
    uploads = 0
    for xi, xp in enumerate(xprogs):
        xpid = 9000 + xi
        X.PROGRAMS[xpid] = xp
        for method in ("prod", "exch"):
            E = []
            for st in xp["steps"]:
                E += [["log", l[0], l[1], dict(l[2])] for l in st["pre"]] + [["batch", st["rows"], None, None]] + [["log", l[0], l[1], dict(l[2])] for l in st["post"]]
            if method == "prod":
                E.append(["done"])
            xkind = "producer" if method == "prod" else "exchange"
            for tkind in ("pipe", "http"):
                res: dict[bool, list[Any]] = {}
                for extern in (False, True):
                    T, up = X.run(tkind, extern, method, xpid, timeout=15.0)
                    n_d += 1
                    ctx.count("impl_runs")
                    res[extern] = T
                    route = "externalised" if extern else "inline"
                    uploads += up if extern else 0
                    ctx.case(["D", xp, method, tkind, route])
                    ctx.tally("D.route", f"{tkind}:{method}:{route}")
                    repl = {"program": xp, "method": method, "transport": tkind, "route": route, "uploads": up, "trace": T, "emitted": E}
                    if not extern and up:
                        ctx.violation("inline-route-uploaded", "a server without external storage uploaded a batch", repl)
                    if tkind == "http" and method == "exch" and not extern:
                        # known cause: HttpStreamSession.exchange reads a response only up to its data batch.  Exactly that
                        # shape -- every batch returned, no error, the delivered logs are the emitted ones minus the logs
                        # emitted AFTER out.emit() -- carries the listed key; anything else goes through the ordinary oracle.
                        pre_only = [["log", l[0], l[1], dict(l[2])] for st in xp["steps"] for l in st["pre"]]
                        n_post = sum(len(st["post"]) for st in xp["steps"])
                        got_logs = [e for e in T if e[0] == "log"]
                        clean = not any(e[0] in ("client_exc", "blocked", "error") for e in T) and [e for e in T if e[0] == "batch"] == [e for e in E if e[0] == "batch"]
                        if clean and n_post and got_logs == pre_only:
                            ctx.tally("D.http-exchange-inline", "post-emit logs dropped")
                            ctx.violation("http-exchange-logs-after-data-batch-dropped",
                                          "HTTP exchange, inline route: non-EXCEPTION client logs emitted after out.emit() in the same process() call never reach on_log "
                                          "(the client reads an exchange response only up to its data batch); pipe, HTTP producer and the externalised route deliver them",
                                          {**repl, "logs_not_delivered": [["log", l[0], l[1], dict(l[2])] for st in xp["steps"] for l in st["post"]]})
                            continue
                        ctx.tally("D.http-exchange-inline", "delivered" if clean and got_logs == [e for e in E if e[0] == "log"] else "other")
                    bad_ev = next((e for e in T if e[0] in ("client_exc", "blocked", "error")), None)
                    if bad_ev is not None:
                        ctx.violation(f"logs-around-data-batch-{route}:{bad_ev[0]}", f"the call produced {bad_ev}", repl)
                        continue
                    problem, detail = check_trace(E, T, xkind, [])
                    ctx.tally("D.oracle", str(problem))
                    if problem in ("lost", "order") and extern and res.get(False) is not None and [e for e in res[False] if e[0] == "log"] == [e for e in E if e[0] == "log"]:
                        ctx.violation("logs-after-data-batch-dropped-on-externalised-route",
                                      "client logs emitted around the data batch of an externalised stream cycle are not all delivered in order; the inline route delivers them: " + detail,
                                      {**repl, "inline_trace": res[False]})
                    elif problem is not None and problem != "data":
                        ctx.violation(f"log-delivery:{problem}", detail, repl)
    ctx.obligation("env:externalised-route-exercised", "environment", uploads > 0, f"{uploads} uploads: the externalised leg is vacuous" if not uploads else f"{uploads} uploads")
    ctx.log(f"part D: {n_d} runs with logs on both sides of the data batch in {time.time() - t0:.1f}s")
    ctx.sample({"D": {"step": "log, emit 200 rows, log (out / ctx / Message channels)", "routes": "inline vs externalised (threshold 0)", "expected": "same messages, once, in order"}})

    header_b = HEADER + "From VGI Require Import M_WireLog.\n"
    ty_in = "prog * script"
    ok1, bad1, log1 = ctx.coq_mismatches(header_b, "rp", "trace_eqb", m_pipe, ty_in, "list event", shard=40)
    ctx.obligation("correspondence:M_Wire.run_pipe", "correspondence", ok1 and not bad1, log1 if not ok1 else f"{len(bad1)} of {len(m_pipe)} cases disagree")
    ok2, bad2, log2 = ctx.coq_mismatches(header_b, "rh", "trace_eqb", m_http, f"option N * ({ty_in})", "list event", shard=40)
    ctx.obligation("correspondence:M_Wire.run_http", "correspondence", ok2 and not bad2, log2 if not ok2 else f"{len(bad2)} of {len(m_http)} cases disagree")
    ok3, bad3, log3 = ctx.coq_mismatches(header_b, "em", "trace_eqb", m_em, ty_in, "list event", shard=60)
    ctx.obligation("correspondence:M_WireLog.emitted", "correspondence", ok3 and not bad3, log3 if not ok3 else f"{len(bad3)} of {len(m_em)} emission sequences disagree with the oracle's")
    ok4, bad4, log4 = ctx.coq_mismatches(header_b, "ll", "Bool.eqb", m_ll, ty_in, "bool", shard=100)
    # `lossless` quantifies over every step of the program, the oracle over the steps that ran: disagreement is allowed only in that direction
    wrong = [i for i in bad4 if m_ll[i][1] == "false"]
    ctx.obligation("correspondence:M_WireLog.lossless", "correspondence", ok4 and not wrong, log4 if not ok4 else f"{len(wrong)} programs lose logs although `lossless` holds")
    ctx.count("model_cases", len(model_a) + len(m_pipe) + len(m_http) + len(m_em))
    for which, bad, lst, fn in (("run_pipe", bad1, m_pipe, "rp"), ("run_http", bad2, m_http, "rh"), ("emitted", bad3, m_em, "em")):
        for i in bad[:2]:
            shown = ctx.coq_show(header_b, f"{fn} {lst[i][0]}")
            ctx.violation(f"model-impl-disagree:{which}", "implementation and model observe differently", {"input": lst[i][0][:3000], "impl": lst[i][1][:3000], "model": shown[-1500:]})
    ctx.assumptions += [
        "the JSON document of log_extra is classified by json.loads with object_pairs_hook (members in document order); json.loads itself is below the model",
        "Python str() of an extra value is applied by the harness when comparing (the model carries the decoded JSON value)",
        "level / message / server_id / request_id bytes are UTF-8 (non-UTF-8 there is outside the property's quantifier)",
        "the interpreter service's log helper is replaced in-process by one that assigns Message.extra (extras named level/message/self cannot be passed as keyword arguments)",
        "FIFO byte channels and identity wrappers as in C01; the in-process Falcon app stands for HTTP",
        "part D: external storage is the in-memory dict of harness.interp with vgi_rpc.external.fetch_url redirected to it; tenacity is a stub; logs after out.emit() are checked by the oracle only (not in M_Wire)",
    ]
