"""C37 OAuth browser flow redirects only to safe origins.

proof         : coq/prop/P_C37.v over model/M_Url.v -- a model of the urllib.parse subset the validators use, of the
                validators, of the WHATWG URL parser as far as the origin is concerned, of the signed session cookie
                (lib/Layout.v) and of the callback's decision.
regenerated   : constants, default allowlist, _is_localhost names, cookie payload layout, the statement sequences of
                _validate_return_to / _validate_original_url / _unpack_oauth_cookie, order of the callback's tests and
                the places a Location is set (translate/t_c37_src.py -> gen/G_Url.v; tie/T_Url.v).
correspondence: (a) model urlsplit/hostname/port vs urllib.parse, (b) model WHATWG origin vs Node 20 `new URL(u, base)`,
                (c) model validators vs the real functions, (d) cookie pack/unpack and callback decision vs the real
                functions / the real Falcon app, all on a URL grammar (schemes, slashes and backslashes, userinfo,
                hosts incl. the allowed host as prefix / suffix / userinfo, IPv4 / IPv6 forms, ports, percent-encoding,
                controls and whitespace, relative forms) plus seeded mutations.
                Cookie fields include multi-byte strings whose extra UTF-8 bytes are balanced by a tail that reads as
                uint16 length + URL; the real pack->unpack round trip must return the packed fields.
oracle        : every 302 the real flow issues (process_request, process_response -> callback) is parsed by Node
                against the service URL: it must be the IdP endpoint, the service origin, an allowlisted or loopback
                origin, or unparseable.

Readings adopted where the statement leaves room:
  * "allowlisted origin": an allowlist entry without a port admits the host on any port (the code's documented
    behaviour: "Only the scheme and host ... are checked"); an entry with a port admits exactly that port.
    R_C37.C37_port_of_allowlisted_host_not_checked records the strict-origin reading as not met; it is not alarmed on.
  * a Location the WHATWG parser rejects (failure) reaches no origin and counts as safe.
  * the redirect to the IdP's authorization endpoint (operator configuration, carries no token) is in scope only in that
    its target must be the configured endpoint.
  * "under the service prefix" = the string starts with the prefix (what the code tests); dot segments are not resolved.
"""
from __future__ import annotations

import base64
import hashlib
import hmac as _hmac
import ipaddress
import re
import struct
import time
from typing import Any

META = {
    "id": "C37",
    "technique": "Coq proof (two URL parsers: urllib subset and WHATWG origin computation; Layout cookie) + regenerated guards/constants/layout + differential correspondence against urllib, Node 20 URL and the real Falcon flow",
    "level_text": "Coq theorems over all code-point strings: a return_to the (repaired) validator accepts makes every Location "
    "the flow builds from it resolve, in the WHATWG model, to an allowlisted or loopback origin or to failure; an original URL "
    "the validator returns resolves to the service origin; the callback proceeds only with a cookie whose HMAC verifies, "
    "whose age is within 600 s and whose state equals the query's; refutations for the unrepaired validators. The "
    "validator flags, constants and cookie layout in the theorems are regenerated from the source on every run.",
    "level_note": "_partial: allowlist entries are scheme://plain-host[:port] (letters, digits, '-', '.', no xn-- label, not "
    "ending in a number); return_to URLs containing '[' (bracketed hosts) are outside the positive theorem (covered by the "
    "correspondences and the oracle only); hosts needing IDNA are outside the WHATWG model (OUnmodelled counts as unsafe in the theorem, so "
    "the theorem still covers them). Trusted: Coq kernel, the WHATWG model (validated against Node 20 on the grammar), the "
    "urllib model (validated against CPython 3.13), translator, harness; HMAC-SHA256 and base64 are parameters.",
    "design_ref": "§5 C37",
}

ALLOWED_HOST = "cupola.query-farm.services"
EVIL_URL = "https://evil.example/cb"
BASES = [("https", "svc.example", None, "https://svc.example/vgi/_oauth/callback?code=c&state=s"), ("http", "svc.example", 8080, "http://svc.example:8080/vgi/x")]
ALLOWLISTS: list[list[str]] = [
    ["https://" + ALLOWED_HOST],
    ["https://" + ALLOWED_HOST],
    ["https://" + ALLOWED_HOST + ":8443", "http://app.example:3000"],
    ["https://k.example", "https://v1.a.b", "https://v1.a.b:8443"],
    [],
]

SCHEMES = ["https:", "http:", "https:", "HTTPS:", "hTtP:", "", "", "ftp:", "javascript:", "file:", "ws:", "ht\ttps:", "https", "1http:", "http+x:", ":", "http:https:", "hıttp:"]
SLASHES = ["//", "//", "//", "", "/", "///", "\\\\", "/\\", "\\/", "//\\", "/\t/", "/\n\\", "////", "\\", "//\r"]
USERINFO = ["", "", "", "", "user@", "user:pw@", "evil.com\\@", "evil.com/@", "a@b@", "@", "evil.com%5C@", "evil.com?@", "evil.com#@", ALLOWED_HOST + "@", "localhost@", "evil.com\\\t@", "[@", "]@"]
HOSTS = [
    ALLOWED_HOST, ALLOWED_HOST, ALLOWED_HOST.upper(), "Cupola.Query-Farm.Services", ALLOWED_HOST + ".evil.com", "evil" + ALLOWED_HOST, ALLOWED_HOST + ".", "." + ALLOWED_HOST,
    "localhost", "localhost", "LOCALHOST", "LocalHost", "127.0.0.1", "127.0.0.1", "127.1", "0x7f.0.0.1", "2130706433", "0177.0.0.1", "127.0.0.1.", "127.0.0.01", "127.0.0.256",
    "[::1]", "[::1", "::1]", "[0:0:0:0:0:0:0:1]", "[::ffff:127.0.0.1]", "[v1.a.b]", "[v1.a.b:8443]", "x[::1]", "[::1]x", "[1:2:3:4:5:6:7:8]", "[1::8]", "[1:2:3:4:5:6:7::]", "[::1.2.3.4]", "[1:2:3:4:5:6:1.2.3.4]", "[1::2::3]", "[12345::]", "[::g]", "[fe80::1%25eth0]", "[localhost]", "[127.0.0.1]", "[]", "[:1]",
    "evil.com", "evil.com", "app.example", "k.example", "K.example", "K.EXAMPLE", "v1.a.b", "loc%61lhost", "%6Cocalhost", "localhost%00", "local host", "localhost.", "l\tocalhost", "xn--nxa.example", "XN--a.b", "", "a..b", "1.2.3.4.5", "0x.0x", "09.1.1.1", "256.1.1.1", "1.2.3.4.", "1.2.3", "0x", "a.09", "a.0x1g", "é.example", "ex%C3%A9.com", "a%2Fb", "a%40b", "a<b", "a^b", "a|b", "a%b", "a%2", "a\x7fb", "a b", "a\x01b", "a\x00", "None", "none",
]
PORTS = ["", "", "", "", ":", ":80", ":443", ":8443", ":3000", ":0", ":00080", ":0443", ":65535", ":65536", ":99999999999999999999", ":8a", ": 80", ":-1", ":80:90", ":٣", ":8443 ", ":\t8443", ":80\\", ":[1]"]
TAILS = ["", "", "/", "/x", "/x?y#z", "?q", "#f", "\\x", "/x ", " ", "\t", "/..//evil.com", "/%5Cevil.com", ";p", "/#a#b", "?a=\\@evil.com", "#@evil.com", "/\\..\\x", "\x1f", "/x\n"]
WRAP_L = ["", "", "", "", " ", "\x00", "\n", "\t ", "\x1f\x20"]
WRAP_R = ["", "", "", "", " ", "\x00", "\n", "\x1f ", "\t"]
MUT_ALPHABET = "/\\@:#?[]%. \t\n\r\x00ahHtps0179x-" + "K"
RELATIVE = [
    "/vgi/", "/vgi/describe?x=1", "/vgi", "/", "", "/anything", "/\\evil.com", "\\\\evil.com", "///evil.com", "//evil.com", "/\t/evil.com", "/\t\\evil.com", "\\/evil.com", "/vgi\\..\\x", "/vgi/../x",
    " /\\evil.com", "/ /evil.com", "/\n/evil.com", "/\r\\evil.com", "/vgi//evil.com", "/vgix", "vgi/x", "?q", "#f", "x", "/vgi/\\evil.com", "/vgi/\t", "////evil.com", "/\\/evil.com", "\t/\\evil.com", "/\x0b/evil.com",
    "/vgi/x y", "/vgi/%5Cevil.com", "//[", "//]", "//[::1]/", "//[zz]/", "/;//evil.com", "https:/evil.com", "https:evil.com", "https:/\\evil.com", "http:\\\\evil.com", "HTTPS://evil.com", "javascript:alert(1)", "/vgi/" + "a" * 2100, "/\\" + "a" * 2100,
]
PREFIXES = ["", "/vgi", "/vgi", "/"]


def _gen_url(rng: Any) -> str:
    k = rng.random()
    if k < 0.1:
        u = rng.choice(RELATIVE)
    elif k < 0.3:
        # mostly well-formed URLs on allowlisted / loopback hosts (exercise the accepting arms)
        sch = rng.choice(["https", "http", "HTTPS", "Http"])
        host = rng.choice([ALLOWED_HOST, ALLOWED_HOST.upper(), "localhost", "LOCALHOST", "127.0.0.1", "app.example", "k.example", "K.example", "v1.a.b"])
        u = rng.choice(WRAP_L) + sch + "://" + rng.choice(["", "", "user@", "u:p@", "a@b@"]) + host + rng.choice(["", "", ":80", ":443", ":8443", ":3000", ":08443", ":x", ":", ":0"]) + rng.choice(TAILS) + rng.choice(WRAP_R)
    else:
        u = rng.choice(WRAP_L) + rng.choice(SCHEMES) + rng.choice(SLASHES) + rng.choice(USERINFO) + rng.choice(HOSTS) + rng.choice(PORTS) + rng.choice(TAILS) + rng.choice(WRAP_R)
    for _ in range(rng.choice([0, 0, 0, 1, 1, 2])):
        s = list(u)
        pos = rng.randrange(len(s) + 1)
        m = rng.randrange(3)
        if m == 0:
            s.insert(pos, rng.choice(MUT_ALPHABET))
        elif m == 1 and s:
            del s[min(pos, len(s) - 1)]
        elif s:
            s[min(pos, len(s) - 1)] = rng.choice(MUT_ALPHABET)
        u = "".join(s)
    return u


WITNESS_RT = [
    "https://evil.com\\@" + ALLOWED_HOST + "/x",
    "http://evil.com\\@localhost/",
    "https://evil.com\\@" + ALLOWED_HOST,
    "https://evil.com\\\t@" + ALLOWED_HOST + "/",
    "http://evil.com\\@127.0.0.1:8080/cb#x",
    "https://" + ALLOWED_HOST + ":8443/",
    "https://" + ALLOWED_HOST + "/ok",
    "http://localhost:3000/cb",
    "https://user@" + ALLOWED_HOST + "/",
    "https://" + ALLOWED_HOST + "@evil.com/",
    "https://" + ALLOWED_HOST + ":443 ",
    "https://" + ALLOWED_HOST + ":abc/",
    "https:///" + ALLOWED_HOST + "/",
    "https:/\\" + ALLOWED_HOST,
    "https:" + ALLOWED_HOST,
]


def _bracket_ok(u: str) -> bool:
    """urllib.parse._check_bracketed_host on the bracketed part urlsplit would test (environment, not repo code)."""
    import urllib.parse as up

    s = u.lstrip(up._WHATWG_C0_CONTROL_OR_SPACE)
    for b in up._UNSAFE_URL_BYTES_TO_REMOVE:
        s = s.replace(b, "")
    i = s.find(":")
    if i > 0 and s[0].isascii() and s[0].isalpha() and all(c in up.scheme_chars for c in s[:i]):
        s = s[i + 1 :]
    if s[:2] != "//":
        return True
    netloc, _ = up._splitnetloc(s, 2)
    if "[" in netloc and "]" in netloc:
        try:
            up._check_bracketed_host(netloc.partition("[")[2].partition("]")[0])
        except ValueError:
            return False
    return True


def _netloc_non_ascii(u: str) -> bool:
    import urllib.parse as up

    s = u.lstrip(up._WHATWG_C0_CONTROL_OR_SPACE)
    for b in up._UNSAFE_URL_BYTES_TO_REMOVE:
        s = s.replace(b, "")
    i = s.find(":")
    if i > 0 and s[0].isascii() and s[0].isalpha() and all(c in up.scheme_chars for c in s[:i]):
        s = s[i + 1 :]
    if s[:2] != "//":
        return False
    return not up._splitnetloc(s, 2)[0].isascii()


def _node_expect(r: dict[str, Any]) -> tuple[int, str, int, list[int], int | None]:
    """Node result -> the model's worigin_code (code, scheme, host kind, host data, port)."""
    if not r["ok"]:
        return (0, "", 0, [], None)
    if r["protocol"] not in ("http:", "https:"):
        return (2, "", 0, [], None)
    sch = r["protocol"][:-1]
    h = r["hostname"]
    port = int(r["port"]) if r["port"] else None
    if h.startswith("["):
        packed = ipaddress.IPv6Address(h[1:-1]).packed
        return (4, sch, 2, [int.from_bytes(packed[i : i + 2], "big") for i in range(0, 16, 2)], port)
    if re.fullmatch(r"\d+\.\d+\.\d+\.\d+", h):
        return (4, sch, 1, [int(ipaddress.IPv4Address(h))], port)
    return (4, sch, 0, [ord(c) for c in h], port)


def _origin_safe(r: dict[str, Any], allowed: list[str]) -> bool:
    """The property's predicate on what the browser does with a Location built from a return_to."""
    if not r["ok"]:
        return True
    if r["protocol"] == "http:" and r["hostname"] in ("localhost", "127.0.0.1", "[::1]"):
        return True
    base = f"{r['protocol']}//{r['hostname']}"
    return r["origin"] in allowed or base in allowed


def translate(ctx: Any) -> None:
    from translate import t_c37_src

    ctx.gen(
        "G_Url",
        lambda: "From Coq Require Import List NArith Bool.\nFrom VGI Require Import Bytes Layout.\nImport ListNotations.\nOpen Scope N_scope.\n" + t_c37_src.definitions(ctx.repo),
    )


HDR = "From Coq Require Import List NArith Bool.\nFrom VGI Require Import Bytes Layout M_Url.\nImport ListNotations.\nOpen Scope N_scope."


def run(ctx: Any) -> None:
    from vlib.coqterm import cN, cbool, cbytes, clist, copt, cstr

    deferred: list[tuple[tuple[Any, ...], Any]] = []

    def mm(*a: Any) -> Any:
        """Queue one model evaluation; the decorated function receives (ok, bad, log) once all have run."""

        def deco(fn: Any) -> Any:
            deferred.append((a, fn))
            return fn

        return deco

    translate(ctx)
    ctx.prove(
        ["prop/P_C37.vo", "tie/T_Url.vo", "refuted/R_C37.vo"],
        {
            "P_C37": [
                "C37_location_safe_partial", "C37_original_same_origin", "C37_original_under_prefix", "C37_cookie_roundtrip",
                "C37_cookie_requires_valid_mac", "C37_callback_requires_cookie", "C37_callback_redirect_safe_partial",
            ],
            "T_Url": ["url_tie", "C37_source_location_safe_partial", "C37_source_original_same_origin", "C37_source_default_allowlist_wf"],
            "R_C37": ["C37_return_to_safe_refuted", "C37_original_same_origin_refuted", "C37_port_of_allowlisted_host_not_checked"],
        },
    )

    import sys

    if "/verif" not in sys.path:
        sys.path.insert(0, "/verif")
    from harness.c37_app import EXCHANGED, GOOD_TOKEN, TOKEN_KEY, AUTH_ENDPOINT, node_origins, pkce_app
    from translate import t_c37_src
    import urllib.parse as up
    from vgi_rpc.http import _oauth_pkce as M

    rng = ctx.rng
    quick = ctx.tier == "quick"
    try:
        chk_rt, chk_or = t_c37_src.flags(ctx.repo)
    except Exception:  # noqa: BLE001 - translation broken: compare against the proved (repaired) model
        chk_rt, chk_or = True, True

    # ---- environment facts ------------------------------------------------------------------------------------
    ascii_lower = [c for c in range(128, 0x110000) if not (0xD800 <= c < 0xE000) and all(ord(x) < 128 for x in chr(c).lower())]
    ctx.obligation("env:only-U+212A-lowers-to-ascii", "environment", ascii_lower == [0x212A] and "İ".lower() == "i̇", f"{[hex(c) for c in ascii_lower[:5]]}")

    n_url = 520 if quick else 4000
    urls = list(dict.fromkeys(WITNESS_RT + RELATIVE + [_gen_url(rng) for _ in range(n_url)]))
    urls = [u for u in urls if not any(0xD800 <= ord(c) < 0xE000 for c in u)]
    ctx.rule = ("cases = URL strings from the grammar [wrap][scheme][slashes/backslashes][userinfo][host][port][tail][wrap] with 0-2 seeded "
                "single-character mutations, plus relative forms and the witnesses; each is (a) split by urllib and the model, (b) resolved by Node "
                "and the model against an https and an http base, (c) given to both validators (several allowlists / prefixes) and the model, "
                "(d) sent through the real Falcon PKCE flow (subset), plus crafted request paths (n multi-byte characters + n-byte ASCII tail = uint16 length + URL) "
                "driven through the WSGI app itself with the untampered cookie: the final Location must stay on the service origin. Non-trivial = the URL has an authority for at least one of the two parsers.")

    ctx.log("proved; a: urlsplit")
    # ---- (a) urlsplit / hostname / port vs urllib ---------------------------------------------------------------
    cases_a = []
    for u in urls:
        bok = _bracket_ok(u)
        nonascii = _netloc_non_ascii(u)
        try:
            sp = up.urlsplit(u)
            try:
                port = sp.port
                code = 0
            except ValueError:
                port, code = None, 2
            hn = sp.hostname
            exp = f"({cN(code)}, ({cstr(sp.scheme)}, {cstr(sp.netloc)}), ({copt(None if hn is None else cstr(hn))}, {copt(None if port is None else cN(port))}))"
        except ValueError:
            if nonascii:
                continue  # _checknetloc (NFKC) is outside the model
            exp = f"({cN(1)}, ({cstr('')}, {cstr('')}), (None, None))"
        if nonascii and any(ord(c) >= 128 and ord(c) not in (0x212A, 0x130) for c in u):
            continue  # str.lower() of other non-ASCII characters is outside the model
        cases_a.append((f"({cbool(bok)}, {cstr(u)})", exp))
        ctx.count("impl_runs")
    eqb_a = "(fun a b => (N.eqb (fst (fst a)) (fst (fst b))) && str_eqb (fst (snd (fst a))) (fst (snd (fst b))) && str_eqb (snd (snd (fst a))) (snd (snd (fst b))) && option_eqb str_eqb (fst (snd a)) (fst (snd b)) && option_eqb N.eqb (snd (snd a)) (snd (snd b)))"
    @mm(HDR, "run_urlsplit", eqb_a, cases_a, "bool * list N", "N * (list N * list N) * (option (list N) * option N)")
    def _done1(ok: bool, bad: list[int], clog: str) -> None:
        ctx.count("model_cases", len(cases_a))
        ctx.obligation("correspondence:M_Url.run_urlsplit~urllib.parse", "correspondence", ok and not bad, clog if not ok else f"{len(bad)} of {len(cases_a)} disagree; first: {cases_a[bad[0]] if bad else ''}")


    ctx.log("b: whatwg vs node")
    # ---- (b) WHATWG origin vs Node ------------------------------------------------------------------------------
    pairs = [(u, b[3]) for u in urls for b in BASES]
    node = node_origins(pairs)
    cases_b = []
    for (u, burl), r, b in zip(pairs, node, [b for _ in urls for b in BASES]):
        code, sch, kind, data, port = _node_expect(r)
        exp = f"({cN(code)}, {cstr(sch)}, ({cN(kind)}, {clist(cN(x) for x in data)}), {copt(None if port is None else cN(port))})"
        cases_b.append((f"({cstr(b[0])}, {cstr(b[1])}, {copt(None if b[2] is None else cN(b[2]))}, {cstr(u)})", exp))
        ctx.tally("node_outcome", "fail" if code == 0 else ("other-scheme" if code == 2 else ("base-origin" if r["origin"] == f"{b[0]}://{b[1]}" + (f":{b[2]}" if b[2] else "") else "foreign-origin")))
        ctx.case(["whatwg", u, b[0]], nontrivial=code == 4)
    @mm(HDR, "run_whatwg_based", "worigin_code_eqb", cases_b, "list N * list N * option N * list N", "N * list N * (N * list N) * option N")
    def _done2(ok: bool, bad: list[int], clog: str) -> None:
        ctx.count("model_cases", len(cases_b))
        ctx.count("node_runs", len(pairs))
        ctx.obligation("correspondence:M_Url.whatwg_origin~node20-URL", "correspondence", ok and not bad, clog if not ok else f"{len(bad)} of {len(cases_b)} disagree; first: {(pairs[bad[0]], node[bad[0]]) if bad else ''}")


    ctx.log("c: validators")
    # ---- (c) validators vs the real functions + oracle ------------------------------------------------------------
    cases_c, meta_c = [], []
    accepted: list[tuple[str, list[str]]] = []
    for u in urls:
        for allowed in [ALLOWLISTS[0]] + ([rng.choice(ALLOWLISTS[2:])] if (not quick or rng.random() < 0.3) else []):
            if _netloc_non_ascii(u) and any(ord(c) >= 128 and ord(c) not in (0x212A, 0x130) for c in u):
                continue
            try:
                got = M._validate_return_to(u, frozenset(allowed))
                code = 1 if got else 0
                if got and got != u:
                    ctx.violation("return-to-returns-other-string", "validator returned a string other than its input", {"url": u, "got": got})
            except ValueError:
                code = 2
                if _netloc_non_ascii(u):
                    continue
            ctx.count("impl_runs")
            ctx.tally("return_to_verdict", ["reject", "accept", "raise"][code])
            ctx.case(["rt", u, allowed], nontrivial=code != 0 or "//" in u or "\\" in u)
            cases_c.append((f"({cbool(chk_rt)}, {cbool(_bracket_ok(u))}, {clist(cstr(a) for a in allowed)}, {cstr(u)})", cN(code)))
            meta_c.append((u, allowed, code))
            if code == 1:
                accepted.append((u, allowed))
    @mm(HDR, "run_return_to", "N.eqb", cases_c, "bool * bool * list (list N) * list N", "N")
    def _done3(ok: bool, bad: list[int], clog: str) -> None:
        ctx.count("model_cases", len(cases_c))
        ctx.obligation("correspondence:M_Url.validate_return_to~_validate_return_to", "correspondence", ok and not bad, clog if not ok else f"{len(bad)} of {len(cases_c)} disagree; first: {meta_c[bad[0]] if bad else ''}")
        for i in bad[:3]:
            ctx.violation("model-impl-disagree-return-to", "implementation and model decide differently", {"url": meta_c[i][0], "allowed": meta_c[i][1], "impl": meta_c[i][2]})


    # oracle: what a browser does with the Locations built from an accepted return_to
    locs = []
    for u, allowed in accepted:
        sep = "#" if "#" not in u else "&"
        for params in ("token=tok", "token=t k\n&client_secret=s"):
            locs.append((u, allowed, u + sep + params))
    res = node_origins([(loc, BASES[0][3]) for _, _, loc in locs] + [(u, BASES[0][3]) for u, _ in accepted])
    for (u, allowed, loc), r in zip(locs, res):
        if not _origin_safe(r, allowed):
            key = "return-to-backslash-ends-browser-authority" if "\\" in u else "return-to-foreign-origin"
            ctx.violation(key, f"_validate_return_to accepts a URL whose browser origin is {r.get('origin')}", {"url": u, "allowed": allowed, "location": loc, "node": r})
    for (u, allowed), r in zip(accepted, res[len(locs) :]):
        if not _origin_safe(r, allowed):
            key = "return-to-backslash-ends-browser-authority" if "\\" in u else "return-to-foreign-origin"
            ctx.violation(key, f"_validate_return_to accepts a URL whose browser origin is {r.get('origin')}", {"url": u, "allowed": allowed, "node": r})
    ctx.count("oracle_return_to_accepted", len(accepted))
    ctx.sample({"return_to": WITNESS_RT[0], "allowlist": ALLOWLISTS[0], "node_origin": "https://evil.com"})

    ctx.log("c2: original url")
    cases_d, meta_d, kept = [], [], []
    orig_inputs = urls if not quick else RELATIVE + WITNESS_RT + rng.sample(urls, min(len(urls), 350))
    for u in dict.fromkeys(orig_inputs):
        for prefix in (PREFIXES if u in RELATIVE else [rng.choice(PREFIXES)]):
            if _netloc_non_ascii(u):
                continue
            try:
                got = M._validate_original_url(u, prefix)
            except ValueError:
                got = None
            ctx.count("impl_runs")
            ctx.case(["orig", u, prefix], nontrivial=got not in (None, prefix or "/"))
            cases_d.append((f"({cbool(chk_or)}, {cbool(_bracket_ok(u[:2048]))}, {cstr(prefix)}, {cstr(u)})", copt(None if got is None else cstr(got))))
            meta_d.append((u, prefix, got))
            if got is not None:
                kept.append((u, prefix, got))
    @mm(HDR, "run_original", "option_eqb str_eqb", cases_d, "bool * bool * list N * list N", "option (list N)")
    def _done4(ok: bool, bad: list[int], clog: str) -> None:
        ctx.count("model_cases", len(cases_d))
        ctx.obligation("correspondence:M_Url.validate_original_url~_validate_original_url", "correspondence", ok and not bad, clog if not ok else f"{len(bad)} of {len(cases_d)} disagree; first: {meta_d[bad[0]] if bad else ''}")
        for i in bad[:3]:
            ctx.violation("model-impl-disagree-original-url", "implementation and model decide differently", {"url": meta_d[i][0], "prefix": meta_d[i][1], "impl": meta_d[i][2]})

    res = node_origins([(got, b[3]) for _, _, got in kept for b in BASES])
    j = 0
    for u, prefix, got in kept:
        for b in BASES:
            r = res[j]
            j += 1
            borigin = f"{b[0]}://{b[1]}" + (f":{b[2]}" if b[2] else "")
            if r["ok"] and r["origin"] != borigin:
                ctx.violation("original-url-leaves-origin", f"_validate_original_url returns {got!r}, which a browser resolves to {r['origin']}", {"url": u, "prefix": prefix, "returned": got, "base": b[3], "node": r})
            if prefix and not got.startswith(prefix):
                ctx.violation("original-url-outside-prefix", "returned URL does not start with the prefix", {"url": u, "prefix": prefix, "returned": got})
    ctx.sample({"original_url": "/\\evil.com", "prefix": "", "node_origin": "https://evil.com"})

    ctx.log("d: cookie")
    # ---- (d) cookie + callback vs the real functions ----------------------------------------------------------------
    sk = M._derive_session_key(TOKEN_KEY)
    now = int(time.time())
    fields_pool = ["", "v", "verifier-43", "sté", "/vgi/x?y", "https://" + ALLOWED_HOST + "/", "a" * 300, "\U0001f600"] + [
        # multi-byte fields: n extra UTF-8 bytes balanced by an n-byte tail that reads as uint16 length + URL
        "/vgi/" + "é" * (2 + len(EVIL_URL)) + "/" + chr(len(EVIL_URL)) + "\x00" + EVIL_URL,
        "/vgi/" + "€" * 13 + "~~" + EVIL_URL + "?",
        "/vgi/é?x=ü", "日本語/パス", "\U0001f600" * 7 + "\x02\x00//", "https://" + ALLOWED_HOST + "/é#ü",
    ]
    cases_e, meta_e = [], []
    pack_meta: list[tuple[str, str, str, str]] = []

    def tag_of(raw: bytes) -> bytes:
        return _hmac.new(sk, raw[:-32], hashlib.sha256).digest()

    pack_cases.clear()

    def add_unpack(raw: bytes, at: int, what: str) -> None:
        ck = base64.urlsafe_b64encode(raw).decode()
        with _frozen_time(at):
            try:
                got: Any = M._unpack_oauth_cookie(ck, sk)
                exp = "(1, [" + "; ".join(cstr(x) for x in got) + "])"
            except ValueError:
                got, exp = "ValueError", "(0, [])"
            except struct.error:
                got, exp = "struct.error", "(2, [])"
        ctx.count("impl_runs")
        ctx.tally("unpack", got if isinstance(got, str) else "ok")
        ctx.case(["unpack", raw.hex(), at - now], nontrivial=True)
        cases_e.append((f"({cbytes(tag_of(raw))}, {cN(at)}, {cbytes(raw)})", exp))
        meta_e.append((what, raw.hex(), at - now, got))

    n_ck = 40 if quick else 400
    for i in range(n_ck):
        cv, st, url, rt = (rng.choice(fields_pool) for _ in range(4))
        created = now - rng.choice([0, 1, 599, 600, 601, 5000, -1, -30])
        ck = M._pack_oauth_cookie(cv, st, url, sk, created_at=created, return_to=rt)
        raw = base64.urlsafe_b64decode(ck)
        # pack vs model layout
        cases_e_pack = (f"({cN(created)}, {cbytes(cv.encode())}, {cbytes(st.encode())}, {cbytes(url.encode())}, {cbytes(rt.encode())})", copt(cbytes(raw[:-32])))
        pack_cases.append(cases_e_pack)
        pack_meta.append((cv, st, url, rt))
        add_unpack(raw, now, "genuine")
        # round trip on the real functions: what the server packs is what it reads back (within the lifetime)
        with _frozen_time(created + rng.choice([0, 1, 300, 600])):
            try:
                back: Any = M._unpack_oauth_cookie(ck, sk)
            except Exception as e:  # noqa: BLE001
                back = f"{type(e).__name__}: {e}"
        ctx.count("impl_runs")
        ctx.tally("roundtrip_field_kind", "non-ascii" if not (cv + st + url + rt).isascii() else "ascii")
        if back != (cv, st, url, rt):
            ctx.violation("cookie-roundtrip-differs", "_unpack_oauth_cookie(_pack_oauth_cookie(fields)) is not fields", {"packed": [cv, st, url, rt], "unpacked": back, "cookie": ck})
        m = rng.randrange(7)
        if m == 0:
            b = bytearray(raw)
            b[rng.randrange(len(b))] ^= 1 << rng.randrange(8)
            add_unpack(bytes(b), now, "bit-flip")
        elif m == 1:
            add_unpack(raw[: rng.randrange(len(raw))], now, "truncated")
        elif m == 2:
            p = bytearray(raw[:-32])
            p[rng.randrange(len(p))] ^= 0xFF
            add_unpack(bytes(p) + _hmac.new(sk, bytes(p), hashlib.sha256).digest(), now, "re-signed-mutation")
        elif m == 3:
            p = raw[:-32][: rng.randrange(9, len(raw) - 32 + 1)]
            add_unpack(p + _hmac.new(sk, p, hashlib.sha256).digest(), now, "re-signed-truncation")
        elif m == 4:
            p = raw[:-32]
            add_unpack(p + _hmac.new(b"other-key", p, hashlib.sha256).digest(), now, "foreign-key")
        elif m == 5:
            p = raw[:-32] + bytes(rng.randrange(256) for _ in range(rng.randrange(1, 5)))
            add_unpack(p + _hmac.new(sk, p, hashlib.sha256).digest(), now, "re-signed-trailing")
        else:
            p = bytes([rng.choice([3, 4, 5])]) + raw[1:-32]
            add_unpack(p + _hmac.new(sk, p, hashlib.sha256).digest(), now, "re-signed-version")
    for raw in (b"", b"x" * 48, b"x" * 49, b"\x04" + b"\0" * 16 + b"m" * 32):
        add_unpack(raw, now, "short")
    @mm(
        HDR, "run_unpack", "(fun a b => N.eqb (fst a) (fst b) && list_eqb str_eqb (snd a) (snd b))", cases_e, "list N * N * list N", "N * list (list N)"
    )
    def _done5(ok: bool, bad: list[int], clog: str) -> None:
        ctx.count("model_cases", len(cases_e))
        ctx.obligation("correspondence:M_Url.unpack_cookie~_unpack_oauth_cookie", "correspondence", ok and not bad, clog if not ok else f"{len(bad)} of {len(cases_e)} disagree; first: {meta_e[bad[0]] if bad else ''}")

    @mm(HDR, "run_pack_payload", "option_eqb str_eqb", pack_cases, "N * list N * list N * list N * list N", "option (list N)")
    def _done6(ok: bool, bad: list[int], clog: str) -> None:
        ctx.count("model_cases", len(pack_cases))
        ctx.obligation("correspondence:M_Url.cookie_layout~_pack_oauth_cookie", "correspondence", ok and not bad, clog if not ok else f"{len(bad)} of {len(pack_cases)} disagree")
        for i in bad[:3]:
            ctx.violation("cookie-pack-layout-differs", "_pack_oauth_cookie does not produce the payload layout (uint16 LE byte-length prefixes)", {"fields": list(pack_meta[i])})

    # oracle on unpack: success only with a verifying MAC, version 4, age within [0, 600]
    for what, rawhex, dt, got in meta_e:
        raw = bytes.fromhex(rawhex)
        if not isinstance(got, str):
            good_mac = len(raw) >= 49 and _hmac.compare_digest(raw[-32:], _hmac.new(sk, raw[:-32], hashlib.sha256).digest())
            created = int.from_bytes(raw[1:9], "little") if len(raw) >= 9 else -1
            if not good_mac or raw[0] != 4 or not (0 <= now + 0 - created <= 600):
                ctx.violation("cookie-accepted-" + what, "cookie accepted although tampered / expired / foreign", {"raw": rawhex, "what": what})

    ctx.log("e: flow")
    # ---- (e) the real flow: every 302 it issues -------------------------------------------------------------------
    flow_rt = WITNESS_RT + [u for u, _ in accepted[:: max(1, len(accepted) // (12 if quick else 80))]] + rng.sample(urls, 10 if quick else 120)
    flow_paths = ["/vgi/describe", "/%5Cevil.com", "///evil.com", "/vgi/%5Cevil.com", "/%09/evil.com", "/vgi/..%2F..%2F%5Cevil.com", "/vgi", "/%5C%5Cevil.com", "/%2F%5Cevil.com"]
    node_jobs: list[tuple[str, str, dict[str, Any], str]] = []  # (location, base url, replay, kind)
    cb_cases, cb_meta = [], []
    for prefix in ("", "/vgi"):
        svc = "https://svc.example"
        with pkce_app(prefix, resource=svc + (prefix or "")) as client:
            cb_path = f"{prefix}/_oauth/callback"
            for path in flow_paths:
                for rt in rng.sample(flow_rt, 3 if quick else 12) + [WITNESS_RT[0]]:
                    try:
                        r1 = client.simulate_get(path, headers={"Accept": "text/html"}, params={"_vgi_return_to": rt, "a": "b"})
                    except Exception as e:  # noqa: BLE001 - an escaping exception is an observable, not a redirect
                        ctx.tally("flow", f"escaped:{type(e).__name__}")
                        continue
                    ctx.count("impl_runs")
                    ctx.case(["flow", prefix, path, rt], nontrivial=True)
                    repl = {"prefix": prefix, "path": path, "return_to": rt}
                    if r1.status_code != 302:
                        ctx.tally("flow", f"first:{r1.status_code}")
                        continue
                    loc1 = r1.headers.get("location", "")
                    if not loc1.startswith(AUTH_ENDPOINT + "?"):
                        ctx.violation("idp-redirect-not-configured-endpoint", "the 401->302 redirect does not target the configured authorization endpoint", {**repl, "location": loc1})
                    ck = r1.cookies.get("_vgi_oauth_session")
                    if ck is None:
                        ctx.violation("no-session-cookie", "302 to the IdP without a session cookie", repl)
                        continue
                    cv, st, ou, rt_c = M._unpack_oauth_cookie(ck.value, sk)
                    if rt_c not in ("", rt):
                        ctx.violation("cookie-return-to-not-input", "cookie carries a return_to that is not the request's", {**repl, "cookie_return_to": rt_c})
                    try:
                        r2 = client.simulate_get(cb_path, params={"code": "c", "state": st}, headers={"Cookie": f"_vgi_oauth_session={ck.value}"})
                    except Exception as e:  # noqa: BLE001
                        ctx.tally("flow", f"escaped:{type(e).__name__}")
                        continue
                    ctx.tally("flow", f"callback:{r2.status_code}:{'external' if rt_c else 'same-origin'}")
                    if r2.status_code == 302:
                        node_jobs.append((r2.headers.get("location", ""), svc + cb_path + "?code=c&state=" + st, {**repl, "cookie_original_url": ou, "cookie_return_to": rt_c}, "external" if rt_c else "same-origin"))
                    # the same cookie, mutated / aged / foreign / absent: must not complete
                    raw = base64.urlsafe_b64decode(ck.value)
                    created = int.from_bytes(raw[1:9], "little")
                    variants: list[tuple[str, str | None, str, int]] = [
                        ("absent", None, st, 0),
                        ("wrong-state", ck.value, st + "x", 0),
                        ("bit-flip", base64.urlsafe_b64encode(bytes([raw[0]]) + bytes([raw[1] ^ 1]) + raw[2:]).decode(), st, 0),
                        ("foreign-key", M._pack_oauth_cookie(cv, st, ou, M._derive_session_key(b"z" * 32), return_to=WITNESS_RT[0]), st, 0),
                        ("expired", ck.value, st, 601),
                        ("from-future", ck.value, st, -5),
                        ("garbage", "!!!not-base64!!!", st, 0),
                        ("genuine", ck.value, st, 0),
                        ("genuine-at-600", ck.value, st, 600),
                    ]
                    for what, cval, state, dt in rng.sample(variants, 3 if quick else 9):
                        with _frozen_time(created + dt):
                            t_now = created + dt
                            hdrs = {} if cval is None else {"Cookie": f"_vgi_oauth_session={cval}"}
                            r3 = client.simulate_get(cb_path, params={"code": "c", "state": state}, headers=hdrs)
                        ctx.count("impl_runs")
                        completes = r3.status_code == 302
                        should = what.startswith("genuine")
                        if completes and not should:
                            ctx.violation("callback-completes-" + what, f"callback completed with a {what} cookie", {**repl, "variant": what, "location": r3.headers.get("location")})
                        if should and not completes:
                            ctx.violation("callback-refuses-genuine", "callback refused the untampered, unexpired cookie with matching state", {**repl, "variant": what, "status": r3.status_code})
                        if not completes and ("location" in r3.headers or "_vgi_auth" in r3.cookies):
                            ctx.violation("refusal-sets-location-or-token", "a refused callback carries a Location or the auth cookie", {**repl, "variant": what})
                        # model: decision of the callback
                        try:
                            rawv = None if cval is None else base64.urlsafe_b64decode(cval)
                        except Exception:  # noqa: BLE001
                            rawv = None
                        if cval is not None and rawv is None:
                            b64 = "None"
                            tag = b""
                        elif cval is None:
                            b64, tag = "None", b""
                        else:
                            b64 = copt(cbytes(rawv))
                            tag = tag_of(rawv)
                        exp_code = 6 if completes else (2 if cval is None else (4 if what == "wrong-state" else 3))
                        cb_cases.append((f"({cbytes(tag)}, {b64}, {cN(t_now)}, {cstr(state)}, {cbool(cval is not None)})", cN(exp_code)))
                        cb_meta.append((what, r3.status_code))
            # crafted request paths with multi-byte characters, no _vgi_return_to: the whole flow through the WSGI
            # app itself (path percent-encoded on the wire, decoded by the WSGI layer), untampered cookie
            from urllib.parse import parse_qs, quote, urlparse as _up

            from harness.c37_app import header_values

            crafted: list[str] = [f"{prefix}/describe", f"{prefix}/" + quote("é/ü", safe="/")]
            for ch in ("é", "€", "\U0001f600"):
                extra = len(ch.encode()) - 1
                for target in (EVIL_URL, "//evil.example/x", "http://evil.example\\@localhost/"):
                    need = 2 + len(target)
                    n = -(-need // extra)
                    pad = "x" * (n * extra - need)
                    exact = chr(len(target) & 0xFF) + chr(len(target) >> 8)
                    crafted.append(f"{prefix}/" + quote(ch * n + "/" + pad + exact + target, safe=""))
                    crafted.append(f"{prefix}/" + quote(ch * (n + 1) + "/", safe="") + pad + "~~" + quote(target, safe=":/") + "%3F")
                    crafted.append(f"{prefix}/" + quote(ch * rng.randrange(1, 40) + rng.choice(["", "/", "~~", "\x05\x00"]) + target, safe=""))
            for wire_path in crafted:
                try:
                    s1, h1 = client.wsgi_get(wire_path, headers={"Accept": "text/html"})
                except Exception as e:  # noqa: BLE001
                    ctx.tally("flow", f"escaped:{type(e).__name__}")
                    continue
                ctx.count("impl_runs")
                ctx.case(["flow-crafted", prefix, wire_path], nontrivial=True)
                repl = {"prefix": prefix, "wire_path": wire_path, "site": "crafted-path flow, no _vgi_return_to"}
                if s1 != 302:
                    ctx.tally("flow", f"crafted-first:{s1}")
                    continue
                loc1 = (header_values(h1, "location") or [""])[0]
                sess = [c.split(";", 1)[0].split("=", 1)[1] for c in header_values(h1, "set-cookie") if c.startswith("_vgi_oauth_session=")]
                if not loc1.startswith(AUTH_ENDPOINT + "?") or not sess:
                    ctx.violation("idp-redirect-not-configured-endpoint", "the 401->302 redirect does not target the configured authorization endpoint / sets no session cookie", {**repl, "location": loc1})
                    continue
                state = parse_qs(_up(loc1).query)["state"][0]
                try:
                    _, _, ou_c, rt_c = M._unpack_oauth_cookie(sess[0], sk)
                except Exception as e:  # noqa: BLE001
                    ou_c, rt_c = f"{type(e).__name__}", ""
                if rt_c != "":
                    ctx.violation("cookie-return-to-not-input", "the session cookie reads back a return_to although the request carried none", {**repl, "cookie_return_to": rt_c, "cookie_original_url": ou_c})
                s2, h2 = client.wsgi_get(cb_path, query=f"code=c&state={state}", headers={"Cookie": f"_vgi_oauth_session={sess[0]}"})
                ctx.count("impl_runs")
                ctx.tally("flow", f"crafted-callback:{s2}")
                if s2 == 302:
                    node_jobs.append(((header_values(h2, "location") or [""])[0], svc + cb_path + "?code=c&state=" + state, repl, "must-stay"))
            # already authenticated: process_request redirects immediately
            for rt in flow_rt:
                try:
                    r4 = client.simulate_get((prefix or "") + "/", params={"_vgi_return_to": rt}, headers={"Cookie": f"_vgi_auth={GOOD_TOKEN}", "Accept": "text/html"})
                except Exception as e:  # noqa: BLE001
                    ctx.tally("flow", f"escaped:{type(e).__name__}")
                    continue
                ctx.count("impl_runs")
                ctx.case(["flow-auth", prefix, rt], nontrivial=True)
                if r4.status_code == 302:
                    ctx.tally("flow", "authenticated:302")
                    node_jobs.append((r4.headers.get("location", ""), svc + (prefix or "") + "/", {"prefix": prefix, "return_to": rt, "site": "process_request"}, "external"))
            r5 = client.simulate_get(f"{prefix}/_oauth/logout")
            if r5.status_code in (301, 302, 303, 307):
                node_jobs.append((r5.headers.get("location", ""), svc + f"{prefix}/_oauth/logout", {"prefix": prefix, "site": "logout"}, "same-origin"))
    ctx.log("e2: flow oracle + callback model")
    res = node_origins([(loc, base) for loc, base, _, _ in node_jobs])
    for (loc, base, repl, kind), r in zip(node_jobs, res):
        ctx.count("oracle_locations")
        if kind == "must-stay":
            if r["ok"] and r["origin"] != "https://svc.example":
                leaked = [k for k in ("token=", "client_secret=", "refresh_token=") if k in loc]
                ctx.violation("callback-redirect-leaves-allowed-origins", f"after a login started on a crafted path (no _vgi_return_to) the callback redirects to {r['origin']}" + (f" with {leaked} in the fragment" if leaked else ""), {**repl, "location": loc, "node": r})
        elif kind == "same-origin":
            if r["ok"] and r["origin"] != "https://svc.example":
                ctx.violation("original-url-leaves-origin", f"the flow redirects to {loc!r}, which a browser resolves to {r['origin']}", {**repl, "location": loc, "node": r})
        elif not _origin_safe(r, ALLOWLISTS[0]):
            key = "return-to-backslash-ends-browser-authority" if "\\" in str(repl.get("return_to", "")) else "return-to-foreign-origin"
            has_secret = "client_secret=" in loc
            ctx.violation(key, f"the flow redirects the browser (token{' and client_secret' if has_secret else ''} in the fragment) to {r['origin']}", {**repl, "location": loc, "node": r})
    @mm(HDR, "run_callback", "N.eqb", cb_cases, "list N * option (list N) * N * list N * bool", "N")
    def _done7(ok: bool, bad: list[int], clog: str) -> None:
        ctx.count("model_cases", len(cb_cases))
        ctx.obligation("correspondence:M_Url.callback~_OAuthCallbackResource.on_get", "correspondence", ok and not bad, clog if not ok else f"{len(bad)} of {len(cb_cases)} disagree; first: {cb_meta[bad[0]] if bad else ''}")


    # ---- evaluate the model on everything collected above (all correspondences in parallel) -------------------
    ctx.log(f"model evaluation: {len(deferred)} correspondences")
    from concurrent.futures import ThreadPoolExecutor

    with ThreadPoolExecutor(max_workers=len(deferred)) as pool:
        futs = [pool.submit(ctx.coq_mismatches, *a) for a, _ in deferred]
        results = [f.result() for f in futs]
    for (_, fn), (ok, bad, clog) in zip(deferred, results):
        fn(ok, bad, clog)

    ctx.assumptions += [
        "HMAC-SHA256 and urlsafe base64 are parameters of the model; the cookie theorems hold for every such function",
        "urllib.parse._check_bracketed_host (ipaddress) is a parameter of the model; the correspondence supplies the runtime's verdict",
        "urllib.parse._checknetloc (NFKC, non-ASCII netloc only) and str.lower() of non-ASCII characters other than U+212A/U+0130 are not modelled; such inputs are skipped in (a),(c)",
        "WHATWG hosts that need IDNA (non-ASCII other than U+212A, xn-- labels, percent-encoded non-ASCII) are OUnmodelled: skipped against Node, counted unsafe in the theorem",
        "the browser resolves a Location as `new URL(location, request-URL)`; Node 20's URL is taken as a conformant WHATWG parser",
        "allowlist entry without port = that host on any port (the code's documented reading); see module docstring",
    ]
    ctx.trusted_base = [
        "Coq 8.16.1 kernel incl. vm_compute (no native_compute)",
        "the WHATWG origin model in M_Url.v (validated against Node 20 on the generated grammar) and the urllib model (validated against CPython 3.13)",
        "translate/t_c37_src.py, harness/c37_app.py (OIDC discovery and token exchange are stubbed), Node 20 URL implementation",
    ]


pack_cases: list[tuple[str, str]] = []


class _frozen_time:
    """Freeze time.time() as seen by _oauth_pkce (the module calls time.time() through its `time` import)."""

    def __init__(self, at: int):
        self.at = at

    def __enter__(self) -> None:
        from unittest.mock import patch

        self._p = patch("vgi_rpc.http._oauth_pkce.time.time", return_value=float(self.at))
        self._p.start()

    def __exit__(self, *a: Any) -> None:
        self._p.stop()
