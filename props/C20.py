"""C20 Authentication precedes every dispatch.

proof         : coq/prop/P_C20.v over model/M_Exempt.v -- the exemption predicate of _AuthMiddleware as a predicate AST over
                (method, path) for ALL strings, prefixes and configurations, and the request phase of Falcon over the
                ordered, guarded middleware list (process_request in list order, first raise ends it, responder only after all).
regenerated   : the `exempt` expression of _AuthMiddleware.process_request with the lists make_wsgi_app passes substituted
                -> gen/G_Exempt.v (tie: equal to the modelled term, by reflexivity); the `middleware` list construction of
                make_wsgi_app -> gen/G_ExemptMw.v (tie: order_ok, by computation); theorems restated over the generated terms
                in tie/T_Exempt.v.
correspondence: the real Falcon app (falcon.testing.TestClient) around services whose method names collide with framework
                endpoints, with an authenticator that rejects everything and records whether it was asked, and an invocation
                log of all service code; (callback asked, refused with 401) vs the Coq model on every request.
histories     : multi-request histories on ONE app (PKCE on and off) with a stateful operator callback (token revoked / proxy header
                required / PermissionError between requests), credentials by Authorization header and by the _vgi_auth cookie, all
                route kinds x prefixes; oracle per step: service code ran or a non-exempt request passed authentication => the
                callback was asked in THIS request and accepted; each step vs the (stateless) Coq model run_step on
                (callback invocations, 401); the chain members are regenerated (gen/G_ExemptChain.v).
oracle        : on the real app alone, from the property text: with a rejecting callback no service code runs, and the callback
                is skipped only for OPTIONS, paths below /.well-known/, the exact health path, and paths below {prefix}/_oauth/
                while the PKCE flow is active.

Readings adopted:
  * "the OAuth browser-flow endpoints" = the reserved namespace {prefix}/_oauth/... while the PKCE flow is configured (the code
    exempts the namespace, not the three routes; no RPC method can live there because names starting with "_" are never
    exposed).  Without PKCE nothing under _oauth is exempt.
  * "the exact health endpoint" = path == {prefix}/health while enable_health_endpoint is on.
  * "service code" = a Protocol method body, a stream factory, a stream-state hook or the upload-URL provider; the
    on_serve_start hook fired by _TransportNotifyMiddleware (before authentication) is not counted (DESIGN App. E).
  * method names are Python identifiers (what a Protocol can declare).
"""
from __future__ import annotations

import itertools
from typing import Any

META = {
    "id": "C20",
    "technique": "Coq proof (exemption predicate AST + Falcon request-phase model) + regenerated predicate / middleware list + differential correspondence on the real Falcon app",
    "level_text": "Coq theorems for all paths, methods, prefixes and configurations: the exemption test of _AuthMiddleware holds "
    "exactly for OPTIONS, paths below /.well-known/, the exact health path and paths below {prefix}/_oauth/ (PKCE on); with a "
    "rejecting callback a request outside these never reaches routing nor a middleware that must follow authentication; "
    "dispatch happens only after the callback accepted; with the authenticator as make_wsgi_app composes it (callback, then the "
    "PKCE cookie member) a dispatch needs an accepting answer of the operator callback given in this request about this request's "
    "own Authorization value or cookie, for every step of every history. The predicate term, the middleware list and the chain "
    "members in the theorems are regenerated from the source on every run.",
    "level_note": "Trusted: Coq kernel (vm_compute), the three ast translators (t_c20_chain is a strict shape check of "
    "chain_authenticate / make_cookie_authenticate: no closure state, inner asked every time), the reading of Falcon's request phase "
    "(hand model, tied by correspondence: callback asked / 401 on every generated request, incl. sticky-before-auth probes), "
    "Falcon routing and the responders (not modelled: the theorems stop at 'routing not reached').",
    "design_ref": "§5 C20",
}

ARROW = "application/vnd.apache.arrow.stream"

# service A / B: the same names once as unary and once as stream methods
NAMES_1 = ["healthz", "health_check", "healthcheck", "describe", "oauth", "f", "well_known", "init", "exchange", "health_"]
NAMES_2 = ["health", "healthy", "s", "Health"]
SERVICES = {"A": (NAMES_1, NAMES_2), "B": (NAMES_2, NAMES_1)}
SEGMENTS = NAMES_1 + NAMES_2 + [
    "_oauth", "_oauthx", "_oaut", "__describe__", "__upload_url__", "__introspect_token__", "__session__", ".well-known", "HEALTH",
]
SUFFIXES = ["", "/init", "/exchange", "/", "/x/init"]
VERBS = ["POST", "GET", "OPTIONS", "HEAD", "PUT", "DELETE", "PATCH"]
PREFIXES_QUICK = ["", "/vgi", "/a/b", "/health"]
PREFIXES_MORE = ["/api/v1", "/_oauth", "/x/health", "/h"]


def paths_for(prefix: str) -> list[str]:
    out = [f"{prefix}/{seg}{suf}" for seg in SEGMENTS for suf in SUFFIXES]
    out += [
        "/.well-known/oauth-protected-resource", f"/.well-known/oauth-protected-resource{prefix}", "/.well-known/init", "/.well-known",
        "/.well-known/", "/.well-knownx/init", "/.well-known/health/init", prefix or "/", f"{prefix}/", "/", "/health", "/healthz", "/health/init",
        "/_oauth/callback", f"{prefix}/_oauth/callback", f"{prefix}/_oauth/logout", f"{prefix}/_oauth/token", f"{prefix}/_oauth/f/init",
        f"{prefix}/_oauth", f"{prefix}/health/health", f"{prefix}/healthz/healthz/init", f"{prefix}//health", f"{prefix}/health%7A",
        f"{prefix}/healt", f"{prefix}/healthé", f"{prefix}{prefix}/health", f"{prefix}/.well-known/x",
    ]
    return list(dict.fromkeys(out))


def spec_allowed(prefix: str, pkce: bool, health: bool, verb: str, path: str) -> bool:
    """The four classes of the property text (independent of model and code)."""
    if verb == "OPTIONS":
        return True
    if path[:13] == "/.well-known/":
        return True
    if health and path == prefix + "/health":
        return True
    oa = prefix + "/_oauth/"
    return pkce and path[: len(oa)] == oa


def violation_key(prefix: str, path: str) -> str:
    h = prefix + "/health"
    if path.startswith(h) and path != h:
        return "health-prefix-without-boundary"
    if path.startswith(prefix + "/_oauth"):
        return "oauth-prefix-bypass"
    if path.startswith("/.well-known"):
        return "well-known-lookalike-bypass"
    return "auth-bypass-other-path"


def translate(ctx: Any) -> None:
    from translate import t_c20_chain, t_c20_exempt, t_c20_middleware

    ctx.gen("G_Exempt", lambda: t_c20_exempt.definition(ctx.repo))
    ctx.gen("G_ExemptMw", lambda: t_c20_middleware.definition(ctx.repo))
    ctx.gen("G_ExemptChain", lambda: t_c20_chain.definition(ctx.repo))


_PATH_SURPRISES: list[tuple[str, str]] = []


def decoded(path: str) -> str:
    """req.path as Falcon sees it: the percent-decoded URL path."""
    from urllib.parse import unquote

    return unquote(path)


def _one(client: Any, srv: Any, S: Any, verb: str, path: str, junk_session: bool) -> tuple[int, bool, list[str]]:
    seg = [p for p in path.split("/") if p]
    name = next((p for p in reversed(seg) if p not in ("init", "exchange")), "f") if seg else "f"
    body = S.request_body(srv, name) if verb in ("POST", "PUT", "PATCH") else b""
    headers = {"Content-Type": ARROW}
    if junk_session:
        headers["VGI-Session"] = "junk"
    del S.LOG[:]
    del S.AUTH_CALLS[:]
    r = client.simulate_request(verb, path, body=body, headers=headers)
    if S.AUTH_CALLS and S.AUTH_CALLS[0] != decoded(path):
        _PATH_SURPRISES.append((path, S.AUTH_CALLS[0]))
    return r.status_code, bool(S.AUTH_CALLS), list(S.LOG)


# ---- request histories on ONE app with a stateful operator callback (PKCE cookie member) ----
# a step: {"live","need","perm": callback state now; "hk","ck": Authorization / cookie kind 0 none 1 good 2 bad 3 empty;
#          "edge": proxy header present; "verb","path"}
HIST_ROUTES = [("POST", "/f"), ("POST", "/healthz"), ("POST", "/s/init"), ("POST", "/s/exchange"), ("POST", "/health/init"),
               ("POST", "/__describe__"), ("POST", "/__upload_url__/init"), ("GET", "/describe"), ("DELETE", "/f"),
               ("GET", "/health"), ("GET", "/_oauth/logout"), ("OPTIONS", "/f"), ("POST", "/nosuch")]


def _hist_step(client: Any, srv: Any, S: Any, auth: Any, st: dict[str, Any]) -> dict[str, Any]:
    """Set the callback's state, send one request, report what happened in THIS request."""
    auth.live, auth.need_edge, auth.perm = st["live"], st["need"], st["perm"]
    tok = {1: S.GOOD_TOKEN, 2: S.BAD_TOKEN, 3: ""}
    headers = {"Content-Type": ARROW}
    if st["hk"]:
        headers["Authorization"] = f"Bearer {tok[st['hk']]}"
    if st["ck"]:
        headers["Cookie"] = f"_vgi_auth={tok[st['ck']]}"
    if st["edge"]:
        headers[S.EDGE_HEADER] = "1"
    seg = [p for p in st["path"].split("/") if p]
    name = next((p for p in reversed(seg) if p not in ("init", "exchange")), "f") if seg else "f"
    body = S.request_body(srv, name) if st["verb"] == "POST" else b""
    del S.LOG[:]
    del S.AUTH_CALLS[:]
    del auth.calls[:]
    r = client.simulate_request(st["verb"], st["path"], body=body, headers=headers)
    return {"status": r.status_code, "calls": [list(c) for c in auth.calls], "accepted": any(c[2] for c in auth.calls), "service_log": list(S.LOG)}


def _hist_judge(prefix: str, pkce: bool, steps: list[dict[str, Any]], obs: list[dict[str, Any]], i: int) -> tuple[str, str] | None:
    """Property oracle for step i of a history: dispatch needs an accepting verdict of the callback in this request."""
    st, o = steps[i], obs[i]
    allowed = spec_allowed(prefix, pkce, True, st["verb"], decoded(st["path"]))
    passed = bool(o["service_log"]) or (not allowed and o["status"] != 401)
    if not passed or o["accepted"]:
        return None
    earlier = any(obs[j]["accepted"] and steps[j]["ck"] == st["ck"] and steps[j]["hk"] != 1 for j in range(i))
    if st["ck"] == 1 and earlier:
        key = "dispatch-on-remembered-cookie-verdict"
    elif st["hk"] == 1 and any(obs[j]["accepted"] and steps[j]["hk"] == 1 for j in range(i)):
        key = "dispatch-on-remembered-header-verdict"
    else:
        key = "dispatch-without-accepting-verdict"
    what = (f"step {i}: {st['verb']} {st['path']} (Authorization kind {st['hk']}, cookie kind {st['ck']}, edge header {st['edge']}; callback now: "
            f"live={st['live']} need_edge={st['need']}) was answered HTTP {o['status']}, service code {o['service_log']}, although the callback "
            f"was asked {len(o['calls'])} time(s) in this request and accepted none")
    return key, what


def _replay_history(ctx: Any, data: dict[str, Any]) -> None:
    import falcon.testing
    from harness import c20_service as S

    rp = data["replay"]
    un, stn = SERVICES[rp.get("service", "A")]
    srv = S.make_server(un, stn)
    auth = S.StatefulAuth()
    app = S.make_app(srv, prefix=rp["prefix"], pkce=rp["pkce"], health=True, reject=None, upload=True, authenticate=auth)
    client = falcon.testing.TestClient(app)
    steps = rp["history"]
    obs = []
    for i, st in enumerate(steps):
        obs.append(_hist_step(client, srv, S, auth, st))
        print(f"replayed step {i}: {st['verb']} {st['path']} -> HTTP {obs[-1]['status']} callback verdicts {[c[2] for c in obs[-1]['calls']]} service {obs[-1]['service_log']}", flush=True)
        j = _hist_judge(rp["prefix"], rp["pkce"], steps, obs, i)
        if j is not None:
            ctx.violation(j[0], j[1], {**rp, "observed": obs})
            return


def replay(ctx: Any, data: dict[str, Any]) -> None:
    """Re-run exactly one recorded request (or one recorded history) against the real app."""
    import falcon.testing
    from harness import c20_service as S

    rp = data["replay"]
    if "history" in rp:
        _replay_history(ctx, data)
        return
    un, st = SERVICES[rp.get("service", "A")]
    srv = S.make_server(un, st)
    app = S.make_app(srv, prefix=rp["prefix"], pkce=rp["pkce"], health=rp["health"], reject=rp["reject"], sticky=rp.get("sticky", False), upload=True)
    status, asked, log = _one(falcon.testing.TestClient(app), srv, S, rp["verb"], rp["path"], rp.get("junk_session", False))
    rp = {**rp, "path": decoded(rp["path"])}
    print(f"replayed: status={status} callback_asked={asked} service_code_ran={log}", flush=True)
    if rp["reject"] is not None and (log or (not asked and not spec_allowed(rp["prefix"], rp["pkce"], rp["health"], rp["verb"], rp["path"]))):
        ctx.violation(data.get("key", "replayed"), data.get("what", "replayed"), {**rp, "status": status, "callback_asked": asked, "service_log": log})


def run(ctx: Any) -> None:
    from vlib.coqterm import cbool, cstr

    translate(ctx)
    ctx.prove(
        ["prop/P_C20.vo", "tie/T_Exempt.vo", "refuted/R_C20.vo"],
        {
            "P_C20": [
                "C20_exempt_iff", "C20_health_is_exact", "C20_no_dispatch_when_rejected", "C20_dispatch_only_if_allowed",
                "C20_auth_precedes_dispatch", "C20_bypass_only_if_allowed",
                "C20_auth_calls_about_this_request", "C20_dispatch_needs_fresh_verdict", "C20_history_fresh_verdict",
            ],
            "T_Exempt": [
                "exempt_tie", "gen_order_ok", "C20_source_exempt_iff", "C20_source_no_dispatch_when_rejected",
                "C20_source_auth_precedes_dispatch", "C20_source_bypass_only_if_allowed",
                "members_tie", "C20_source_dispatch_needs_fresh_verdict",
            ],
        },
    )

    import falcon.testing
    from harness import c20_service as S

    ctx.log("proofs checked; running the real app")
    thorough = ctx.tier != "quick"
    prefixes = PREFIXES_QUICK + (PREFIXES_MORE if thorough else [ctx.rng.choice(PREFIXES_MORE)])
    servers = {k: S.make_server(un, st) for k, (un, st) in SERVICES.items()}

    # (prefix, pkce, health, reject, sticky, service)
    configs: list[tuple[str, bool, bool, str | None, bool, str]] = []
    for i, (prefix, pkce, health) in enumerate(itertools.product(prefixes, [False, True], [True, False])):
        configs.append((prefix, pkce, health, "ValueError", False, "AB"[i % 2]))
        if thorough:
            configs.append((prefix, pkce, health, "ValueError", False, "BA"[i % 2]))
    n_core = len(configs)
    for prefix in prefixes[:3] if not thorough else prefixes:
        configs.append((prefix, True, True, "PermissionError", False, "B"))
        configs.append((prefix, False, True, "AuthFailure", True, "A"))
        configs.append((prefix, True, True, "ValueError", True, "B"))
        configs.append((prefix, True, True, None, False, "A"))      # no callback configured: OAuth metadata alone never activates PKCE
        configs.append((prefix, False, True, None, True, "B"))

    ctx.rule = ("cases = app config (prefix x PKCE x health endpoint x rejecting callback kind | none x sticky x service A|B) x HTTP verb x path, "
                "path = {prefix}/{segment}{suffix} with segments = method names sharing prefixes with framework endpoints "
                "(health*, oauth*, describe, init, exchange, well_known) + framework names, suffixes '', /init, /exchange, /, /x/init, plus "
                "well-known / oauth / health lookalikes with and without prefix; distinct by (config flags, prefix, verb, path); "
                "non-trivial = a callback is configured")
    model_cases: dict[tuple[Any, ...], tuple[bool, bool]] = {}
    flagged: set[tuple[Any, ...]] = set()
    n_ran = 0

    for ci_, (prefix, pkce, health, reject, sticky, svc) in enumerate(configs):
        srv = servers[svc]
        core = ci_ < n_core  # the prefix x PKCE x health product with a rejecting callback: every path
        app = S.make_app(srv, prefix=prefix, pkce=pkce, health=health, reject=reject, sticky=sticky, upload=True)
        client = falcon.testing.TestClient(app)
        pkce_active = pkce and reject is not None
        for path in paths_for(prefix):
            if thorough:
                verbs = VERBS
            elif core:
                verbs = ["POST"] + ([ctx.rng.choice(VERBS[1:])] if ctx.rng.random() < 0.4 else [])
            elif ctx.rng.random() < 0.4:
                verbs = [ctx.rng.choice(VERBS[:2]), ctx.rng.choice(VERBS[2:])]
            else:
                continue
            for verb in verbs:
                junk = sticky and ctx.rng.random() < 0.5
                status, asked, log = _one(client, srv, S, verb, path, junk)
                url, path = path, decoded(path)
                ctx.count("impl_runs")
                ctx.tally("verb", verb)
                ctx.tally("callback", reject or "none")
                ctx.tally("status", status)
                key = (reject is not None, pkce, pkce, health, sticky, prefix, verb, path)
                ctx.case(list(key), nontrivial=reject is not None)
                repl = {"prefix": prefix, "pkce": pkce, "health": health, "reject": reject, "sticky": sticky, "service": svc,
                        "verb": verb, "path": url, "junk_session": junk, "status": status, "callback_asked": asked, "service_log": log}
                if log:
                    n_ran += 1
                # ---- oracle on the implementation (property text) ----
                if reject is not None:
                    allowed = spec_allowed(prefix, pkce_active, health, verb, path)
                    if log:
                        flagged.add(key)
                        if allowed:
                            ctx.violation("service-code-ran-on-exempt-path", f"service code ran for a rejected-by-construction request on an exempt path: {log}", repl)
                        else:
                            ctx.violation(violation_key(prefix, path), f"the callback rejects everything, yet {verb} {path} ran service code {log} (HTTP {status}, callback asked: {asked})", repl)
                    elif not asked and not allowed:
                        flagged.add(key)
                        ctx.violation(violation_key(prefix, path), f"{verb} {path} passed authentication without the callback being asked (HTTP {status}) although it is none of OPTIONS / .well-known / exact health / _oauth", repl)
                    if asked and status != 401:
                        flagged.add(key)
                        ctx.violation("rejected-but-not-401", f"the callback rejected {verb} {path} but the answer was HTTP {status}", repl)
                else:
                    if asked:
                        ctx.violation("callback-without-configuration", "a callback was asked although none is configured", repl)
                prev = model_cases.get(key)
                obs = (asked, status == 401)
                if prev is not None and prev != obs:
                    ctx.violation("nondeterministic-auth-decision", "the same request was decided differently on two apps with the same flags", {**repl, "before": prev})
                model_cases[key] = obs
    ctx.count("service_code_ran_total", n_ran)
    ctx.sample({"prefix": "/vgi", "verb": "POST", "path": "/vgi/healthz", "callback": "rejects", "expected": "asked, 401, method does not run"})
    ctx.sample({"prefix": "", "verb": "POST", "path": "/health/init", "callback": "rejects", "expected": "asked, 401"})
    ctx.sample({"prefix": "/vgi", "verb": "GET", "path": "/vgi/health", "callback": "rejects", "expected": "not asked, 200"})

    # ---- request histories on one app: stateful operator callback, credentials by header and by cookie ----
    ctx.log("single-request sweep done; request histories with a stateful callback")
    hist_cases: dict[tuple[Any, ...], tuple[int, bool]] = {}
    n_hist = 0
    for prefix in prefixes:
        for pkce in (True, False):
            if not pkce and prefix not in prefixes[:2]:
                continue
            srv = servers["A"]
            routes = [(v, prefix + p) for v, p in HIST_ROUTES]
            base = {"live": True, "need": False, "perm": False, "hk": 0, "ck": 0, "edge": False}
            histories: list[list[dict[str, Any]]] = []
            # targeted: accept a credential once, then every route with the same credential after the callback's mind changed
            for chan in ("ck", "hk"):
                for change in ({"live": False}, {"need": True}, {"live": False, "perm": True}):
                    h = [{**base, chan: 1, "verb": "POST", "path": prefix + "/f"}]
                    h += [{**base, **change, chan: 1, "verb": v, "path": p} for v, p in routes]
                    h += [{**base, "need": True, "edge": True, chan: 1, "verb": "POST", "path": prefix + "/s/init"}]
                    h += [{**base, "need": True, chan: 1, "verb": "POST", "path": prefix + "/s/init"}]
                    histories.append(h)
            # random walks over callback state x credentials x routes
            for _ in range(6 if thorough else 2):
                h = []
                live, need, perm = True, False, False
                for _k in range(60 if thorough else 30):
                    if ctx.rng.random() < 0.25:
                        live = not live
                    if ctx.rng.random() < 0.15:
                        need = not need
                    if ctx.rng.random() < 0.1:
                        perm = not perm
                    v, p = ctx.rng.choice(routes[:8]) if ctx.rng.random() < 0.8 else ctx.rng.choice(routes)
                    h.append({"live": live, "need": need, "perm": perm, "hk": ctx.rng.choice([0, 0, 1, 1, 2]), "ck": ctx.rng.choice([0, 1, 1, 1, 2, 3]),
                              "edge": ctx.rng.random() < 0.5, "verb": v, "path": p})
                histories.append(h)
            for h in histories:
                auth = S.StatefulAuth()
                app = S.make_app(srv, prefix=prefix, pkce=pkce, health=True, reject=None, upload=True, authenticate=auth)
                client = falcon.testing.TestClient(app)
                obs: list[dict[str, Any]] = []
                for i, st in enumerate(h):
                    o = _hist_step(client, srv, S, auth, st)
                    obs.append(o)
                    n_hist += 1
                    ctx.count("impl_runs")
                    ctx.count("history_steps")
                    ctx.tally("history_status", o["status"])
                    ctx.tally("history_callback_calls", len(o["calls"]))
                    ctx.case(["hist", prefix, pkce, st], nontrivial=True)
                    j = _hist_judge(prefix, pkce, h, obs, i)
                    if j is not None:
                        ctx.violation(j[0], j[1], {"prefix": prefix, "pkce": pkce, "service": "A", "history": h[: i + 1], "observed_last": o})
                    if o["accepted"] and o["status"] == 401:
                        ctx.violation("accepted-but-401", f"step {i}: the callback accepted {st['verb']} {st['path']} in this request but the answer was 401",
                                      {"prefix": prefix, "pkce": pkce, "service": "A", "history": h[: i + 1], "observed_last": o})
                    hk = (pkce, prefix, st["verb"], decoded(st["path"]), st["live"], st["need"], st["perm"], st["edge"], st["hk"], st["ck"])
                    ho = (len(o["calls"]), o["status"] == 401)
                    prev_h = hist_cases.get(hk)
                    if prev_h is not None and prev_h != ho and j is None:
                        ctx.violation("history-dependent-auth-decision", f"step {i}: the same request under the same callback state was decided {prev_h} before and {ho} now "
                                      "(calls, 401): the decision depends on earlier requests", {"prefix": prefix, "pkce": pkce, "service": "A", "history": h[: i + 1], "observed_last": o})
                    hist_cases.setdefault(hk, ho)
    ctx.sample({"history": "cookie accepted on POST /vgi/f; token revoked; same cookie on every route", "expected": "each later step: callback asked twice, 401, no service code"})

    # sanity of the harness itself: with no callback the colliding methods do run (the invocation log works)
    srvA = servers["A"]
    c0 = falcon.testing.TestClient(S.make_app(srvA, prefix="/vgi", pkce=False, health=True, reject=None, upload=True))
    st0, _, log0 = _one(c0, srvA, S, "POST", "/vgi/healthz", False)
    st1, _, log1 = _one(c0, srvA, S, "POST", "/vgi/health/init", False)
    ctx.obligation("env:invocation-log-live", "environment", log0 == ["unary:healthz"] and bool(log1) and log1[0] == "stream:health" and st0 == 200 and st1 == 200,
                   f"without a callback /vgi/healthz -> {st0} {log0}, /vgi/health/init -> {st1} {log1}")

    ctx.obligation("env:req-path-is-decoded-url-path", "environment", not _PATH_SURPRISES, f"req.path differs from the decoded URL path: {_PATH_SURPRISES[:3]}")

    # ---- model side ----
    ctx.log(f"implementation runs done ({len(model_cases)} distinct requests); evaluating the model")
    keys = list(model_cases)
    cases = []
    # compact case encoding (the cost on the Coq side is elaborating the case terms): configurations, verbs and strings
    # are tables in the header; a case is four small numbers and a flag
    cfg_ix: dict[tuple[Any, ...], int] = {}
    str_ix: dict[str, int] = {}
    for k in keys:
        au, om, ci, he, stk, prefix, verb, path = k
        asked, is401 = model_cases[k]
        rel = prefix != "" and path.startswith(prefix)
        c = cfg_ix.setdefault((au, om, ci, he, stk, prefix), len(cfg_ix))
        p = str_ix.setdefault(path[len(prefix):] if rel else path, len(str_ix))
        cases.append((f"({c}, {VERBS.index(verb)}, {cbool(rel)}, {p})", f"({cbool(asked)}, {cbool(is401)})"))
    header = (
        "From Coq Require Import List NArith Bool.\nFrom VGI Require Import M_Exempt Corr.\nImport ListNotations.\nOpen Scope N_scope.\n"
        "Definition c20_verbs : list (list N) := [" + "; ".join(cstr(v) for v in VERBS) + "].\n"
        "Definition c20_cfgs : list ((bool * bool * bool * bool * bool) * list N) := [\n"
        + ";\n".join(f"(({cbool(au)}, {cbool(om)}, {cbool(ci)}, {cbool(he)}, {cbool(stk)}), {cstr(prefix)})" for (au, om, ci, he, stk, prefix) in cfg_ix)
        + "].\nDefinition c20_strs : list (list N) := [\n" + ";\n".join(cstr(x) for x in str_ix) + "].\n"
        "Definition c20_rc (x : N * N * bool * N) : bool * bool :=\n"
        "  let '(c, v, rel, p) := x in\n"
        "  let '(flags, prefix) := nth (N.to_nat c) c20_cfgs ((false, false, false, false, false), []) in\n"
        "  let rest := nth (N.to_nat p) c20_strs [] in\n"
        "  let '(a, b, _) := run_case (flags, prefix, nth (N.to_nat v) c20_verbs [], if rel then prefix ++ rest else rest) in (a, b)."
    )
    ok, bad, clog = ctx.coq_mismatches(header, "c20_rc", "pair_eqb Bool.eqb Bool.eqb", cases, "N * N * bool * N", "bool * bool", shard=4000)
    ctx.count("model_cases", len(cases))
    ctx.obligation("correspondence:M_Exempt.run_case", "correspondence", ok and not bad, clog if not ok else f"{len(bad)} of {len(cases)} cases disagree")
    shown = 0
    for i in bad:
        if keys[i] in flagged or shown >= 3:
            continue  # already reported by the oracle with its own key
        shown += 1
        au, om, ci, he, stk, prefix, verb, path = keys[i]
        ctx.violation(
            "model-impl-disagree",
            "implementation and model decide differently on (callback asked, 401)",
            {"prefix": prefix, "pkce": om, "health": he, "reject": "ValueError" if au else None, "sticky": stk, "verb": verb, "path": path,
             "impl": list(model_cases[keys[i]])},
        )
    # ---- model side for the history steps (the model is stateless: every step is a case of run_step) ----
    from vlib.coqterm import cN

    hkeys = list(hist_cases)
    hcases = []
    for (pkce, prefix, verb, path, live, need, perm, edge, hk_, ck_) in hkeys:
        calls, is401 = hist_cases[(pkce, prefix, verb, path, live, need, perm, edge, hk_, ck_)]
        inp = (f"((true, {cbool(pkce)}, {cbool(pkce)}, true, false), {cstr(prefix)}, {cstr(verb)}, {cstr(path)}, "
               f"({cbool(live)}, {cbool(need)}, {cbool(perm)}, {cbool(edge)}), ({cN(hk_)}, {cN(ck_)}))")
        hcases.append((inp, f"({cN(calls)}, {cbool(is401)})"))
    okh, badh, clogh = ctx.coq_mismatches(
        "From Coq Require Import List NArith Bool.\nFrom VGI Require Import M_Exempt Corr.\nImport ListNotations.\nOpen Scope N_scope.",
        "(fun x => let '(n, r, _) := run_step x in (n, r))",
        "pair_eqb N.eqb Bool.eqb",
        hcases,
        "(bool * bool * bool * bool * bool) * list N * list N * list N * (bool * bool * bool * bool) * (N * N)",
        "N * bool",
        shard=4000,
    )
    ctx.count("history_model_cases", len(hcases))
    ctx.obligation("correspondence:M_Exempt.run_step", "correspondence", okh and not badh, clogh if not okh else f"{len(badh)} of {len(hcases)} history steps disagree")
    if badh and not any(v["key"].startswith("dispatch-") or v["key"] == "history-dependent-auth-decision" for v in ctx.violations):
        k = hkeys[badh[0]]
        ctx.violation("model-impl-disagree-history", "implementation and model decide a history step differently on (callback invocations, 401)",
                      {"step": list(k), "impl": list(hist_cases[k])})
    ctx.assumptions += [
        "Falcon request phase: process_request of the middleware list in order, the first raise ends it, the responder runs only when none raised (hand model; tied by correspondence)",
        "routing and responders are not modelled: 'service code' is only reachable through routing (EvDispatch)",
        "OAuth browser-flow endpoints are read as the namespace {prefix}/_oauth/ while PKCE is configured",
        "OIDC discovery is never triggered by the generated requests (issuer http://127.0.0.1:1)",
        "chain_authenticate / make_cookie_authenticate are modelled as a pure function of the callback's answers now (shape-checked by t_c20_chain, tied by the history correspondence)",
    ]
