"""C13 Stream tokens are bound to the method that minted them.

proof        : coq/prop/P_C13.v over model/M_TokMethod.v (what is sealed in a cursor / call token, what the
               /{method}/exchange endpoint checks, histories of init / exchange / cache-drop steps)
refuted      : coq/refuted/R_C13.v  -- C13_method_bound_refuted: a reachable history in which a token of stream method 0 is
               accepted at the exchange endpoint of method 1 (replayed below on the real Falcon app)
regenerated  : translate/t_c13_fields.py -> gen/G_TokMethod.v: the sealed fields of both tokens with the roots their values
               come from at every mint site, and the parameters of the recovery functions; tie/T_TokMethod.v proves
               them equal to the model's lists ("no sealed field derives from the method name; the only method-derived
               input is the state-class table entry")
correspondence: generated services (<= 4 stream methods: producer / exchange, single and union state classes, shared and
               distinct classes, call states) behind the real app, with and without the compact (msgpack) state codec;
               every harvested cursor (first generation, and those re-minted by whichever endpoint served it) is
               presented at EVERY stream endpoint with its own / no / another stream's call token, own / other identity,
               data / cancel turn, warm / cold call-state cache.  Model verdict (incl. the refusal class read off the 400
               body), state class, field values, bound call, cache put vs the real app; minted state bytes (union tag,
               codec, columns) vs the model's encode.

Finding (pending the coordinator's decision; candidate patch fixes/C13-bind-method-in-token-aad.diff changes the token
format -> known finding rather than fix): key "C13-no-method-binding".  With that patch applied the translator stops
("the AAD is no longer a function of the AuthContext alone") and the correspondence reports the foreign presentations
the model still accepts: the model and R_C13 must then be revisited.

Readings adopted
  * "the stream method whose initialization minted its tokens" = the method whose /init started the stream the cursor
    belongs to (its call_id); tokens re-minted on later turns belong to that same stream.
  * "accepted" = _unpack_and_recover_state returned, i.e. the URL method's state class was instantiated from the token
    and handed to process() / on_cancel().  A request answered 400 before that is "rejected".
  * Presenting a stream's tokens at its OWN method's endpoint is of course fine; only endpoint != origin counts.
"""
from __future__ import annotations

import json
import os
import subprocess
import sys
from pathlib import Path
from typing import Any

META = {
    "id": "C13",
    "technique": "Coq proof over an executable model of token contents + exchange-endpoint checks (all histories) "
    "+ regenerated sealed-field/provenance tie + differential correspondence on generated multi-method services",
    "level_text": "Coq theorems over all services, identities, histories of init/exchange/cache-drop steps: an accepted "
    "presentation is bound to the caller identity, to the stream's own call token and to a state class of the URL method "
    "that accepts the payload's column names -- and to nothing else; the method binding holds exactly for services whose "
    "methods reject each other's state payloads (C13_method_bound_partial) and fails for every service with one "
    "compatible pair (C13_method_bound_fails_whenever_compatible, R_C13.C13_method_bound_refuted).",
    "level_note": "Trusted: Coq kernel (vm_compute), t_c13_fields translator, harness decoding of tokens with the real "
    "open functions, the pure-Python msgpack stand-in (harness/stubs_C13) for the compact-codec runs. Assumed: ideal AEAD "
    "(only minted tokens open; C12), call ids never repeat (os.urandom(16)), TTL/expiry only remove acceptances.",
    "design_ref": "§5 C13",
}

FINDING_KEY = "C13-no-method-binding"
NAMES = ["n", "k", "s", "e", "l", "b"]
CANON = {"n": "int", "k": "int", "s": "str", "e": "E0", "l": "list", "b": "bytes"}
TYPES = ["int", "str", "bytes", "list", "E0", "E1"]
STRINGS = ["A", "B", "C", "zz"]
ENUMS = {"E0": ["A", "B"], "E1": ["B", "C"]}
CALLSTATES = ["CS0", "CS1"]


# ---- service generation -----------------------------------------------------------------------------------------------
def _svc(classes: list[dict[str, Any]], methods: list[dict[str, Any]], cache: int) -> dict[str, Any]:
    return {"strings": STRINGS, "enums": ENUMS, "callstates": CALLSTATES, "classes": classes, "methods": methods, "cache": cache}


def _f(name: str, ty: str, default: bool = False) -> dict[str, Any]:
    return {"name": name, "type": ty, "default": default}


def directed_services() -> list[dict[str, Any]]:
    S = lambda name, fields, callty=None: {"name": name, "callty": callty, "fields": fields}  # noqa: E731
    M = lambda name, info, producer, out=0: {"name": name, "info": info, "producer": producer, "out": out}  # noqa: E731
    return [
        # 0: the R_C13 witness: two methods, two DIFFERENT state classes with the same required field name
        _svc([S("S0", [_f("n", "int")]), S("S1", [_f("n", "int")])], [M("m0", ["S0"], False), M("m1", ["S1"], False)], 4096),
        # 1: one class shared by a producer and an exchange method; a class whose fields all have defaults accepts anything
        _svc(
            [S("S0", [_f("n", "int")]), S("S1", [_f("k", "int", True), _f("s", "str", True)]), S("S2", [_f("n", "E0")], "CS0"), S("S3", [_f("n", "str")], "CS0")],
            [M("m0", ["S0"], True), M("m1", ["S0"], False, 1), M("m2", ["S1"], False), M("m3", ["S3", "S2"], True)],
            4096,
        ),
        # 2: unions sharing members in different positions, call states declared by some members only, cold worker (no cache)
        _svc(
            [S("S0", [_f("n", "int"), _f("l", "list", True)], "CS0"), S("S1", [_f("n", "int")], "CS1"), S("S2", [_f("s", "str"), _f("n", "int", True)]), S("S3", [_f("e", "E0", True)], "CS0")],
            [M("m0", ["S0", "S1"], False), M("m1", ["S1", "S2", "S0"], False), M("m2", ["S2", "S3"], True), M("m3", ["S0"], True, 1)],
            0,
        ),
        # 3: enum-valued fields: acceptance depends on the value (a str naming a member)
        _svc(
            [S("S0", [_f("s", "str")]), S("S1", [_f("s", "E0")]), S("S2", [_f("s", "E1"), _f("k", "int", True)]), S("S3", [_f("s", "bytes")])],
            [M("m0", ["S0"], False), M("m1", ["S1"], False), M("m2", ["S2"], True), M("m3", ["S3"], False)],
            2,
        ),
    ]


def random_service(rng: Any) -> dict[str, Any]:
    ncls = rng.randint(2, 5)
    classes = []
    for i in range(ncls):
        names = rng.sample(NAMES[:4], rng.randint(0 if rng.random() < 0.1 else 1, 3))
        fields = []
        for nm in names:
            ty = CANON[nm] if rng.random() < 0.55 else rng.choice(TYPES)
            fields.append(_f(nm, ty, rng.random() < 0.4))
        classes.append({"name": f"S{i}", "callty": rng.choice([None, None, "CS0", "CS1"]), "fields": fields})
    methods = []
    for j in range(rng.randint(2, 4)):
        if rng.random() < 0.55:
            info = [rng.choice(classes)["name"]]
        else:
            info = [c["name"] for c in rng.sample(classes, rng.randint(2, min(3, ncls)))]
        methods.append({"name": f"m{j}", "info": info, "producer": rng.random() < 0.5, "out": rng.randint(0, 1)})
    return _svc(classes, methods, rng.choice([0, 1, 3, 4096, 4096]))


def reason_of(message: str | None) -> int:
    """Refusal class (M_TokMethod.outcome) of a real 400 body."""
    m = message or ""
    table = [
        ("State token signature verification failed", 1),
        ("Missing call token in exchange request", 2),
        ("Call token signature verification failed", 3),
        ("State token does not belong to the supplied call token", 4),
        ("declares call-state type", 5),
        ("Cannot deserialize union state from untagged token", 7),
        ("Unknown union state tag", 8),
        ("has no compact layout", 9),
        ("Missing fields in", 10),
        ("missing 1 required positional argument", 10),
        ("required positional argument", 10),
        ("for Enum deserialization", 11),
        ("is not a valid", 11),
    ]
    for needle, code in table:
        if needle in m:
            return code
    if m.startswith("RuntimeError: Failed to deserialize state: "):
        return 6  # whatever pyarrow says about bytes that are not an IPC stream
    return 99


# ---- Coq rendering ----------------------------------------------------------------------------------------------------
class Render:
    def __init__(self, spec: dict[str, Any], state_types: dict[str, Any]) -> None:
        self.spec = spec
        self.strings: list[str] = list(spec["strings"])
        for ms in spec["enums"].values():
            for m in ms:
                if m not in self.strings:
                    self.strings.append(m)
        self.cls_ids = {c["name"]: i for i, c in enumerate(spec["classes"])}
        self.cls = {c["name"]: c for c in spec["classes"]}
        self.m_ids = {m["name"]: i for i, m in enumerate(spec["methods"])}
        self.state_types = state_types
        self.bad = False

    def s_id(self, s: str) -> int:
        if s not in self.strings:
            self.strings.append(s)
        return self.strings.index(s)

    def value(self, v: list[Any]) -> str:
        t = v[0]
        if t == "n":
            return "VNull"
        if t == "i" and v[1] >= 0:
            return f"(VInt {v[1]})"
        if t == "s":
            return f"(VStr {self.s_id(v[1])})"
        if t == "b":
            return f"(VBytes {v[1]})"
        if t == "l" and all(x >= 0 for x in v[1]):
            return "(VList [" + ";".join(str(x) for x in v[1]) + "])"
        self.bad = True
        return "VNull"

    def cols(self, cols: list[list[Any]]) -> str:
        return "[" + ";".join(f"({NAMES.index(n)}, {self.value(v)})" for n, v in cols) + "]"

    def kind(self, ty: str) -> str:
        if ty in self.spec["enums"]:
            return "(KEnum [" + ";".join(str(self.s_id(m)) for m in self.spec["enums"][ty]) + "])"
        return "KList" if ty == "list" else "KScalar"

    def default(self, f: dict[str, Any]) -> str:
        if not f["default"]:
            return "None"
        ty = f["type"]
        if ty in self.spec["enums"]:
            return f"(Some (VStr {self.s_id(self.spec['enums'][ty][0])}))"
        return {"int": "(Some (VInt 7))", "str": f"(Some (VStr {self.s_id('A')}))", "bytes": "(Some (VBytes 6))", "list": "(Some (VList []))"}[ty]

    def klass(self, name: str) -> str:
        c = self.cls[name]
        fields = sorted(c["fields"], key=lambda f: f["default"])
        fs = ";".join(f"{{| f_name := {NAMES.index(f['name'])}; f_kind := {self.kind(f['type'])}; f_default := {self.default(f)} |}}" for f in fields)
        ct = "None" if c["callty"] is None else f"(Some {CALLSTATES.index(c['callty'])})"
        return f"{{| c_id := {self.cls_ids[name]}; c_fields := [{fs}]; c_callty := {ct} |}}"

    def service(self) -> str:
        ms = []
        for m in self.spec["methods"]:
            names, is_union = self.state_types[m["name"]]
            info = "(Union [" + ";".join(self.klass(n) for n in names) + "])" if is_union else f"(Single {self.klass(names[0])})"
            ms.append(f"{{| m_name := {self.m_ids[m['name']]}; m_info := {info} |}}")
        return "[" + ";\n  ".join(ms) + "]"

    def cursor(self, c: dict[str, Any]) -> str:
        tag = "None" if c["tag"] is None else f"(Some {c['tag']})"
        enc = "Compact" if c["enc"] == "compact" else "Arrow"
        return f"{{| cu_ident := {c['ident']}; cu_callid := {c['callid']}; cu_state := {{| sb_tag := {tag}; sb_enc := {enc}; sb_cols := {self.cols(c['cols'])} |}} |}}"

    @staticmethod
    def cst(x: str | None) -> str:
        return "None" if x is None else f"(Some {CALLSTATES.index(x)})"

    def call(self, c: dict[str, Any] | None) -> str:
        if c is None:
            return "None"
        return f"(Some {{| ca_ident := {c['ident']}; ca_callid := {c['callid']}; ca_cstate := {self.cst(c['cstate'])}; ca_out := {c['out']}; ca_in := {c['in']}; ca_sid := {c['sid']} |}})"

    def cache(self, entries: list[list[Any]]) -> str:
        return "[" + ";".join(f"({e[0]}, {e[1]}, {{| r_cstate := {self.cst(e[2])}; r_out := {e[3]}; r_in := {e[4]}; r_sid := {e[5]} |}})" for e in entries) + "]"


def translate(ctx: Any) -> None:
    from translate import t_c13_fields

    ctx.gen("G_TokMethod", lambda: t_c13_fields.generate(ctx.repo))


def _run_driver(job: dict[str, Any], repo: Path) -> dict[str, Any]:
    env = dict(os.environ)
    env["PYTHONHASHSEED"] = "0"
    env["PYTHONPATH"] = f"{repo}:/verif:/verif/harness/stubs"
    p = subprocess.Popen([sys.executable, "-m", "harness.c13_driver"], cwd="/verif", env=env, stdin=subprocess.PIPE, stdout=subprocess.PIPE, stderr=subprocess.PIPE, text=True)
    return {"proc": p, "job": job}


def run(ctx: Any) -> None:
    translate(ctx)
    ctx.prove(
        ["prop/P_C13.vo", "refuted/R_C13.vo", "tie/T_TokMethod.vo"],
        {
            "P_C13": [
                "C13_accepted_bound_to_identity_stream_and_shape", "C13_method_bound_partial",
                "C13_method_bound_fails_whenever_compatible",
            ],
            "R_C13": ["C13_method_bound_refuted", "C13_method_bound_refuted_same_class"],
            "T_TokMethod": ["sealed_fields_tie", "C13_source_no_sealed_field_from_method_name", "C13_source_recovery_ignores_method_name"],
        },
    )

    # ---- generated services, two driver processes (with / without the compact codec) --------------------------------
    quick = ctx.tier == "quick"
    services = directed_services() + [random_service(ctx.rng) for _ in range(5 if quick else 28)]
    budget = {"seeds": 1 if quick else 2, "max_gen": 2, "derived": 6 if quick else 16, "extra": 2 if quick else 5}
    jobs = []
    for mp in (False, True):
        jobs.append(_run_driver({"msgpack": mp, "seed": ctx.seed * 2 + int(mp), "services": services, "budget": budget}, ctx.repo))
    for j in jobs:
        j["proc"].stdin.write(json.dumps(j["job"]))
        j["proc"].stdin.close()
    results = []
    for j in jobs:
        try:
            out = j["proc"].stdout.read()
            err = j["proc"].stderr.read()
            j["proc"].wait(timeout=1500)
            results.append(json.loads(out))
        except Exception as exc:  # noqa: BLE001
            j["proc"].kill()
            ctx.obligation(f"driver:msgpack={j['job']['msgpack']}", "environment", False, f"{type(exc).__name__}: {exc}; stderr: {err[-800:] if 'err' in dir() else ''}")
            results.append(None)

    ctx.rule = (
        "cases = generated service (4 directed + seeded random: <= 4 stream methods, single/union state classes over fields "
        "n,k,s,e with int/str/bytes/list/enum types and defaults, call states, producer/exchange) x compact codec on/off x "
        "harvested cursor (every method x union member x identity x seed; plus cursors re-minted by the endpoint that served "
        "them) x EVERY stream endpoint x {own, no, another stream's call token} x {own, other identity} x {data, cancel} x "
        "{warm, cold cache}; distinct by (service, codec, endpoint, identity, cursor record, call record, cache hit); "
        "non-trivial = endpoint differs from the method whose /init started the stream"
    )
    header_defs: list[str] = []
    cases: list[tuple[str, str]] = []
    case_info: list[dict[str, Any]] = []
    mint_cases: list[tuple[str, str]] = []
    seen: set[str] = set()
    finding_replay: dict[str, Any] | None = None
    witness_seen = False
    for ri, res in enumerate(results):
        if res is None:
            continue
        mp = bool(jobs[ri]["job"]["msgpack"])
        ctx.obligation(f"env:compact-codec-{'on' if mp else 'off'}", "environment", res["have_msgpack"] == mp, f"driver reports _HAVE_MSGPACK={res['have_msgpack']}")
        for si, (spec, sres) in enumerate(zip(services, res["services"])):
            if "crash" in sres:
                ctx.obligation(f"driver:service{si}:msgpack={mp}", "environment", False, sres["crash"][-1500:])
                continue
            for e in sres["errors"][:3]:
                ctx.obligation(f"driver:service{si}:harvest", "environment", False, e[:600])
            R = Render(spec, sres["state_types"])
            svc_name = f"svc_{ri}_{si}"
            header_defs.append(f"Definition {svc_name} : service :=\n  {R.service()}.")
            mpc = "true" if mp else "false"
            ctx.count("tokens_harvested", sres["n_tokens"])
            for c in sres["cases"]:
                obs = c["obs"]
                ctx.count("impl_runs")
                foreign = c["endpoint"] != c["origin"]
                log = obs["log"]
                acc = bool(log)
                hit = any(e[0] == c["cursor"]["callid"] and e[1] == c["ident"] for e in obs["cache_before"])
                ctx.tally("variant", c["variant"])
                ctx.tally("endpoint_vs_origin", ("foreign" if foreign else "own") + ("/accepted" if acc else "/rejected"))
                ctx.tally("cache", "hit" if hit else "miss")
                ctx.tally("codec", c["cursor"]["enc"] + ("/tagged" if c["cursor"]["tag"] is not None else ""))
                ctx.tally("generation", c["gen"])
                canon = [si, mp, c["endpoint"], c["ident"], c["cursor"], c["call"], hit, c["cancel"]]
                ctx.case(canon, nontrivial=foreign)
                replay = {
                    "service": spec, "compact_codec": mp, "stream_started_by": c["origin"], "cursor_minted_at": c["minted_at"],
                    "presented_at": c["endpoint"], "identity": c["ident"], "cursor": c["cursor"], "call_token": c["call"],
                    "cancel": c["cancel"], "cache_hit": hit, "http_status": obs["status"], "method_saw": log[:1], "message": obs["message"],
                }
                # ---- property oracle on the implementation (independent of the model) ----
                if foreign and acc:
                    rec = log[0]
                    own_classes = sres["state_types"][c["origin"]][0]
                    kind = "same-state-class" if rec["cls"] in own_classes else "different-state-class"
                    ctx.count("foreign_accepted")
                    ctx.tally("finding_class", kind + ("/cancel" if c["cancel"] else "/process"))
                    if finding_replay is None or (si == 0 and not finding_replay.get("_witness")):
                        finding_replay = {**replay, "class": kind, "_witness": si == 0}
                    ctx.violation(FINDING_KEY, "tokens minted for one stream method are accepted at another method's /exchange: "
                                  "the foreign method's state class is instantiated from them and processed", {k: v for k, v in finding_replay.items() if k != "_witness"})
                    if si == 0 and c["origin"] == "m0" and c["endpoint"] == "m1" and rec["cls"] == "S1" and not c["cancel"] and not mp:
                        witness_seen = True
                if acc and c["ident"] != c["cursor"]["ident"]:
                    ctx.violation("accepted-under-other-identity", "a cursor minted for one identity was served to another", replay)
                if acc and not hit and (c["call"] is None or c["call"]["callid"] != c["cursor"]["callid"]):
                    ctx.violation("accepted-cold-without-own-call-token", "cache miss and no call token of the same stream, yet served", replay)
                if acc and log[0]["method"] != c["endpoint"]:
                    ctx.violation("dispatched-to-other-method-than-url", "the state was processed under another method name than the URL's", replay)
                if not acc and obs["status"] != 400:
                    ctx.violation("rejected-not-400", f"a rejected presentation answered HTTP {obs['status']}", replay)
                # ---- model case ----
                R.bad = False
                inp = f"({mpc}, {svc_name}, {R.cache(obs['cache_before'])}, {R.m_ids[c['endpoint']]}, {c['ident']}, {R.cursor(c['cursor'])}, {R.call(c['call'])})"
                ins = "true" if obs["puts"] else "false"
                if acc:
                    rec = log[0]
                    r_in = 0 if rec["producer"] is None else (11 if rec["producer"] else 10)
                    r_out = rec["out"] if rec["out"] is not None else 0
                    exp = (f"(Accepted {ins} {R.cls_ids[rec['cls']]} {R.cols(rec['vals'])} "
                           f"{{| r_cstate := {R.cst(rec['cstate'])}; r_out := {r_out}; r_in := {r_in}; r_sid := {rec['sid'] or 0} |}})")
                else:
                    why = reason_of(obs["message"])
                    ctx.tally("refusal_class", why)
                    exp = f"(Rejected {ins} {why})"
                if R.bad or obs["puts"] > 1 or len(obs["inserted"]) > 1:
                    exp = "(Accepted true 999 [] {| r_cstate := None; r_out := 0; r_in := 0; r_sid := 0 |})"  # not expressible: certain disagreement
                key = inp + exp
                if key in seen:
                    continue
                seen.add(key)
                cases.append((inp, exp))
                case_info.append(replay)
            for mt in sres["mints"]:
                st = mt["state"]
                c = R.cls[st["cls"]]
                well_typed = all(
                    v[0] == {"int": "i", "str": "s", "bytes": "b", "list": "l"}.get(f["type"], "s")
                    for f, (_n, v) in zip(sorted(c["fields"], key=lambda f: f["default"]), st["vals"])
                )
                if not well_typed:
                    continue
                R.bad = False
                cu = mt["cursor"]
                inp = f"({mpc}, {svc_name}, {R.m_ids[mt['method']]}, {{| st_cls := {R.klass(st['cls'])}; st_vals := {R.cols(st['vals'])} |}})"
                tag = "None" if cu["tag"] is None else f"(Some {cu['tag']})"
                exp = f"(Some {{| sb_tag := {tag}; sb_enc := {'Compact' if cu['enc'] == 'compact' else 'Arrow'}; sb_cols := {R.cols(cu['cols'])} |}})"
                if not R.bad and inp + exp not in seen:
                    seen.add(inp + exp)
                    mint_cases.append((inp, exp))
    for k, v in list(ctx.dist.get("finding_class", {}).items())[:4]:
        ctx.sample({"finding_class": k, "count": v})
    if finding_replay is not None:
        ctx.sample({k: finding_replay[k] for k in ("stream_started_by", "presented_at", "class", "http_status", "method_saw")})
    # the Coq witness of R_C13 (service 0: m0 -> m1, different classes, same field name) must be what the real app does
    ctx.obligation("replay:R_C13.C13_method_bound_refuted", "correspondence", witness_seen,
                   "the refutation witness (token of m0 served at /m1/exchange by state class S1) did not reproduce on the real app")

    header = ("From Coq Require Import List NArith Bool.\nFrom VGI Require Import M_TokMethod Corr.\nImport ListNotations.\nOpen Scope N_scope.\n"
              + "\n".join(header_defs))
    ok, bad, clog = ctx.coq_mismatches(header, "run_case", "outcome_obs_eqb", cases, "bool * service * cache * N * N * cursor * option call", "outcome", shard=250)
    ctx.count("model_cases", len(cases))
    ctx.obligation("correspondence:M_TokMethod.run_case", "correspondence", ok and not bad and len(cases) > 0, clog if not ok else f"{len(bad)} of {len(cases)} cases disagree")
    for i in bad[:3]:
        shown = ctx.coq_show(header, f"run_case {cases[i][0]}")
        ctx.violation("model-impl-disagree", "the exchange endpoint and the model decide differently", {**case_info[i], "expected_term": cases[i][1][:400], "model": shown[-600:]})
    ok2, bad2, clog2 = ctx.coq_mismatches(header, "run_mint", "option_eqb sbytes_eqb", mint_cases, "bool * service * N * state", "option sbytes", shard=250)
    ctx.count("mint_cases", len(mint_cases))
    ctx.obligation("correspondence:M_TokMethod.run_mint", "correspondence", ok2 and not bad2 and len(mint_cases) > 0, clog2 if not ok2 else f"{len(bad2)} of {len(mint_cases)} mints disagree")
    for i in bad2[:3]:
        shown = ctx.coq_show(header, f"run_mint {mint_cases[i][0]}")
        ctx.violation("model-impl-disagree-mint", "minted state bytes differ from the model's encode", {"input": mint_cases[i][0][:600], "impl": mint_cases[i][1][:400], "model": shown[-400:]})
    ctx.assumptions += [
        "ideal AEAD: only tokens minted by this server (under the same key) open, and only under the identity in their AAD (C12)",
        "call ids (os.urandom(16)) never repeat: premise `fresh` of the init step in M_TokMethod histories",
        "token TTL and cache expiry only remove acceptances (C12 / C14); not modelled",
        "compact-codec runs use the pure-Python msgpack stand-in harness/stubs_C13/msgpack.py (real msgpack is not installed)",
        "state classes are modelled up to what deserialization distinguishes: field names, required/default, scalar | Enum | list",
        "bind_call_state / rehydrate / __post_init__ of the application do not raise (framework defaults are no-ops)",
    ]
