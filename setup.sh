#!/bin/bash
# MANIFEST.setup_cmd: build the framework offline from files on disk only.
HERE="$(cd "$(dirname "$0")" && pwd)"
REPO="${VERIF_REPO:-/repo}"
export VERIF_REPO="$REPO" PYTHONPATH="$REPO:$HERE:$HERE/harness/stubs" PYTHONHASHSEED=0 PYTHONDONTWRITEBYTECODE=1
cd "$HERE"
mkdir -p evidence replays coq/gen
exec /venv/bin/python -m vlib.setup 2> >(grep -v "^WARNING: conda" >&2)
